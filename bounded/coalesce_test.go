package factstore

// Bounded stand-in (NOT a proof) for the part of C13's coalescing obligation that the deductive contract does not
// carry: coalesceIntervals never changes the set of instants covered (the contract proves only that the concrete
// intervals of the result are pairwise apart, and absence of overflow/index errors). Runs the real function on every
// list of up to N intervals over a small set of endpoints including the extreme timestamps and unbounded ends.

import (
	"fmt"
	"math"
	"os"
	"testing"

	"codeberg.org/TauCeti/mangle-go/ast"
)

func gocvBound(v int64) ast.TemporalBound {
	return ast.TemporalBound{Type: ast.TimestampBound, Timestamp: v}
}

func gocvCovers(i ast.Interval, t int64) bool {
	lo, hi := int64(math.MinInt64), int64(math.MaxInt64)
	switch i.Start.Type {
	case ast.TimestampBound:
		lo = i.Start.Timestamp
	case ast.PositiveInfinityBound:
		lo = math.MaxInt64
	}
	switch i.End.Type {
	case ast.TimestampBound:
		hi = i.End.Timestamp
	case ast.NegativeInfinityBound:
		hi = math.MinInt64
	}
	return lo <= t && t <= hi
}

func TestGocvBoundedCoalesce(t *testing.T) {
	pts := []int64{math.MinInt64, math.MinInt64 + 1, 0, 1, 2, 3, 5, math.MaxInt64 - 1, math.MaxInt64}
	var all []ast.Interval
	for a := range pts {
		for b := a; b < len(pts); b++ {
			all = append(all, ast.Interval{Start: gocvBound(pts[a]), End: gocvBound(pts[b])})
		}
	}
	all = append(all,
		ast.Interval{Start: ast.TemporalBound{Type: ast.NegativeInfinityBound}, End: gocvBound(1)},
		ast.Interval{Start: gocvBound(2), End: ast.TemporalBound{Type: ast.PositiveInfinityBound}},
	)
	maxLen := 3
	if os.Getenv("GOCV_THOROUGH") != "" {
		maxLen = 4
	}
	probes := append([]int64{}, pts...)
	probes = append(probes, 4, 6, -1)
	cases, fails := 0, 0
	var rec func(cur []ast.Interval, from int)
	rec = func(cur []ast.Interval, from int) {
		if len(cur) >= 1 {
			cases++
			in := append([]ast.Interval{}, cur...)
			out := coalesceIntervals(append([]ast.Interval{}, cur...))
			msg := ""
			for _, p := range probes {
				was, is := false, false
				for _, i := range in {
					was = was || gocvCovers(i, p)
				}
				for _, i := range out {
					is = is || gocvCovers(i, p)
				}
				if was != is {
					msg = fmt.Sprintf("instant %d: covered before=%v after=%v", p, was, is)
					break
				}
			}
			if msg == "" {
				for a := 0; a < len(out); a++ {
					for b := 0; b < len(out); b++ {
						x, y := out[a], out[b]
						if a == b || x.Start.Type != ast.TimestampBound || x.End.Type != ast.TimestampBound || y.Start.Type != ast.TimestampBound || y.End.Type != ast.TimestampBound {
							continue
						}
						if x.Start.Timestamp <= y.Start.Timestamp && (y.Start.Timestamp <= x.End.Timestamp || y.Start.Timestamp-1 == x.End.Timestamp) {
							msg = fmt.Sprintf("result intervals %v and %v overlap or touch", x, y)
						}
					}
				}
			}
			if msg != "" {
				fails++
				if fails <= 5 {
					fmt.Printf("BOUNDED-FAIL coalesceIntervals(%v) = %v  =>  %s\n", in, out, msg)
				}
			}
		}
		if len(cur) == maxLen {
			return
		}
		for k := 0; k < len(all); k++ {
			rec(append(cur[:len(cur):len(cur)], all[k]), k)
		}
	}
	rec(nil, 0)
	fmt.Printf("BOUNDED-CASES %d\n", cases)
	if fails > 0 {
		t.Errorf("%d of %d interval lists violate the coalescing contract", fails, cases)
	}
}
