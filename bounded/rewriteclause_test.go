package analysis

// Bounded stand-in (NOT a proof) for the content part of C04's RewriteClause obligation: the deductive contract decides
// that the NUMBER of literals is preserved and that no index goes out of range; that the literals are the same ones,
// that undelayed literals keep their order and that a negated atom is placed after the premises binding its
// variables is checked here by running the real function on every body up to a stated length over a small alphabet.

import (
	"fmt"
	"os"
	"sort"
	"strings"
	"testing"

	"codeberg.org/TauCeti/mangle-go/ast"
)

func gocvLits() []ast.Term {
	v := func(s string) ast.BaseTerm { return ast.Variable{Symbol: s} }
	at := func(p string, args ...ast.BaseTerm) ast.Atom {
		return ast.Atom{Predicate: ast.PredicateSym{Symbol: p, Arity: len(args)}, Args: args}
	}
	return []ast.Term{
		at("q", v("X")), at("r", v("Y")), at("s", v("X"), v("Y")), at("t", v("Z")),
		ast.NegAtom{Atom: at("n", v("X"))}, ast.NegAtom{Atom: at("m", v("Y"))}, ast.NegAtom{Atom: at("k", v("X"), v("Y"))},
		ast.NegAtom{Atom: at("w", v("_"))}, ast.NegAtom{Atom: at("u", v("Z"), v("X"))},
		ast.Eq{Left: v("X"), Right: ast.Number(1)}, ast.Eq{Left: v("Y"), Right: v("X")},
		ast.Ineq{Left: v("X"), Right: v("Y")},
	}
}

func gocvVars(t ast.Term) map[ast.Variable]bool {
	m := map[ast.Variable]bool{}
	ast.AddVars(t, m)
	return m
}

func gocvCheck(body []ast.Term) string {
	head := ast.Atom{Predicate: ast.PredicateSym{Symbol: "p", Arity: 1}, Args: []ast.BaseTerm{ast.Variable{Symbol: "X"}}}
	in := ast.Clause{Head: head, Premises: append([]ast.Term{}, body...)}
	out := RewriteClause(nil, in)
	if !out.Head.Equals(head) || out.HeadTime != nil || out.Transform != nil {
		return "head, head annotation or transform changed"
	}
	// same literals
	cnt := map[string]int{}
	for _, p := range body {
		cnt[p.String()]++
	}
	for _, p := range out.Premises {
		cnt[p.String()]--
	}
	var diff []string
	for k, n := range cnt {
		if n > 0 {
			diff = append(diff, fmt.Sprintf("lost %dx %s", n, k))
		} else if n < 0 {
			diff = append(diff, fmt.Sprintf("gained %dx %s", -n, k))
		}
	}
	if len(diff) > 0 {
		sort.Strings(diff)
		return strings.Join(diff, "; ")
	}
	// literals other than negated atoms keep their relative order
	var a, b []string
	for _, p := range body {
		if _, neg := p.(ast.NegAtom); !neg {
			a = append(a, p.String())
		}
	}
	for _, p := range out.Premises {
		if _, neg := p.(ast.NegAtom); !neg {
			b = append(b, p.String())
		}
	}
	if strings.Join(a, ",") != strings.Join(b, ",") {
		return "order of the literals that are not negated atoms changed"
	}
	// a negated atom comes after the premises that give its variables a value, whenever the body gives them one at all.
	// Values flow as they do at evaluation time: a positive atom gives every variable of it a value; X = c gives X one;
	// X = Y only ties the two together - both have a value as soon as either gets one (before or after the equality).
	type binder struct {
		parent map[ast.Variable]ast.Variable
		bound  map[ast.Variable]bool // per class representative
	}
	newBinder := func() *binder {
		return &binder{parent: map[ast.Variable]ast.Variable{}, bound: map[ast.Variable]bool{}}
	}
	var find func(b *binder, v ast.Variable) ast.Variable
	find = func(b *binder, v ast.Variable) ast.Variable {
		p, ok := b.parent[v]
		if !ok || p == v {
			return v
		}
		return find(b, p)
	}
	step := func(b *binder, p ast.Term) {
		switch q := p.(type) {
		case ast.Atom:
			for v := range gocvVars(q) {
				b.bound[find(b, v)] = true
			}
		case ast.Eq:
			lv, lIsVar := q.Left.(ast.Variable)
			rv, rIsVar := q.Right.(ast.Variable)
			switch {
			case lIsVar && rIsVar:
				l, r := find(b, lv), find(b, rv)
				if l != r {
					b.parent[l] = r
					b.bound[r] = b.bound[r] || b.bound[l]
				}
			case lIsVar:
				b.bound[find(b, lv)] = true
			case rIsVar:
				b.bound[find(b, rv)] = true
			}
		}
	}
	whole := newBinder()
	for _, p := range body {
		step(whole, p)
	}
	sofar := newBinder()
	for _, p := range out.Premises {
		if na, isNeg := p.(ast.NegAtom); isNeg {
			bindable, bound := true, true
			for v := range gocvVars(na) {
				if !whole.bound[find(whole, v)] {
					bindable = false
				}
				if !sofar.bound[find(sofar, v)] {
					bound = false
				}
			}
			if bindable && !bound {
				return fmt.Sprintf("%v is placed before the premises that give its variables a value", p)
			}
			continue
		}
		step(sofar, p)
	}
	return ""
}

func TestGocvBoundedRewriteClause(t *testing.T) {
	lits := gocvLits()
	maxLen := 4
	if os.Getenv("GOCV_THOROUGH") != "" {
		maxLen = 5
	}
	cases := 0
	fails := 0
	var rec func(body []ast.Term)
	rec = func(body []ast.Term) {
		if len(body) > 0 {
			cases++
			if msg := gocvCheck(body); msg != "" {
				fails++
				if fails <= 5 {
					fmt.Printf("BOUNDED-FAIL p(X) :- %v  =>  %s\n", body, msg)
				}
			}
		}
		if len(body) == maxLen {
			return
		}
		for _, l := range lits {
			rec(append(body[:len(body):len(body)], l))
		}
	}
	rec(nil)
	fmt.Printf("BOUNDED-CASES %d\n", cases)
	if fails > 0 {
		t.Errorf("%d of %d bodies violate the reordering contract", fails, cases)
	}
}
