package analysis

// Bounded stand-in (NOT a proof) for the content part of C04's RewriteClause obligation: the deductive contract decides
// that the NUMBER of literals is preserved and that no index goes out of range; that the literals are the same ones,
// that undelayed literals keep their order and that a negated atom is placed after the premises binding its
// variables is checked here by running the real function on every body up to a stated length over a small alphabet.

import (
	"fmt"
	"os"
	"sort"
	"strings"
	"testing"

	"codeberg.org/TauCeti/mangle-go/ast"
)

func gocvLits() []ast.Term {
	v := func(s string) ast.BaseTerm { return ast.Variable{Symbol: s} }
	at := func(p string, args ...ast.BaseTerm) ast.Atom {
		return ast.Atom{Predicate: ast.PredicateSym{Symbol: p, Arity: len(args)}, Args: args}
	}
	return []ast.Term{
		at("q", v("X")), at("r", v("Y")), at("s", v("X"), v("Y")), at("t", v("Z")),
		ast.NegAtom{Atom: at("n", v("X"))}, ast.NegAtom{Atom: at("m", v("Y"))}, ast.NegAtom{Atom: at("k", v("X"), v("Y"))},
		ast.NegAtom{Atom: at("w", v("_"))}, ast.NegAtom{Atom: at("u", v("Z"), v("X"))},
		ast.Eq{Left: v("X"), Right: ast.Number(1)}, ast.Eq{Left: v("Y"), Right: v("X")},
		ast.Ineq{Left: v("X"), Right: v("Y")},
	}
}

func gocvVars(t ast.Term) map[ast.Variable]bool {
	m := map[ast.Variable]bool{}
	ast.AddVars(t, m)
	return m
}

func gocvCheck(body []ast.Term) string {
	head := ast.Atom{Predicate: ast.PredicateSym{Symbol: "p", Arity: 1}, Args: []ast.BaseTerm{ast.Variable{Symbol: "X"}}}
	in := ast.Clause{Head: head, Premises: append([]ast.Term{}, body...)}
	out := RewriteClause(nil, in)
	if !out.Head.Equals(head) || out.HeadTime != nil || out.Transform != nil {
		return "head, head annotation or transform changed"
	}
	// same literals
	cnt := map[string]int{}
	for _, p := range body {
		cnt[p.String()]++
	}
	for _, p := range out.Premises {
		cnt[p.String()]--
	}
	var diff []string
	for k, n := range cnt {
		if n > 0 {
			diff = append(diff, fmt.Sprintf("lost %dx %s", n, k))
		} else if n < 0 {
			diff = append(diff, fmt.Sprintf("gained %dx %s", -n, k))
		}
	}
	if len(diff) > 0 {
		sort.Strings(diff)
		return strings.Join(diff, "; ")
	}
	// literals other than negated atoms keep their relative order
	var a, b []string
	for _, p := range body {
		if _, neg := p.(ast.NegAtom); !neg {
			a = append(a, p.String())
		}
	}
	for _, p := range out.Premises {
		if _, neg := p.(ast.NegAtom); !neg {
			b = append(b, p.String())
		}
	}
	if strings.Join(a, ",") != strings.Join(b, ",") {
		return "order of the literals that are not negated atoms changed"
	}
	// a negated atom comes after the premises that bind its variables, whenever some premises of the body bind them
	all := map[ast.Variable]bool{}
	for _, p := range body {
		switch p.(type) {
		case ast.Atom, ast.Eq:
			for v := range gocvVars(p) {
				all[v] = true
			}
		}
	}
	before := map[ast.Variable]bool{}
	for _, p := range out.Premises {
		switch p.(type) {
		case ast.Atom, ast.Eq:
			for v := range gocvVars(p) {
				before[v] = true
			}
		case ast.NegAtom:
			bindable, bound := true, true
			for v := range gocvVars(p) {
				if !all[v] {
					bindable = false
				}
				if !before[v] {
					bound = false
				}
			}
			if bindable && !bound {
				return fmt.Sprintf("%v is placed before the premises that bind its variables", p)
			}
		}
	}
	return ""
}

func TestGocvBoundedRewriteClause(t *testing.T) {
	lits := gocvLits()
	maxLen := 4
	if os.Getenv("GOCV_THOROUGH") != "" {
		maxLen = 5
	}
	cases := 0
	fails := 0
	var rec func(body []ast.Term)
	rec = func(body []ast.Term) {
		if len(body) > 0 {
			cases++
			if msg := gocvCheck(body); msg != "" {
				fails++
				if fails <= 5 {
					fmt.Printf("BOUNDED-FAIL p(X) :- %v  =>  %s\n", body, msg)
				}
			}
		}
		if len(body) == maxLen {
			return
		}
		for _, l := range lits {
			rec(append(body[:len(body):len(body)], l))
		}
	}
	rec(nil)
	fmt.Printf("BOUNDED-CASES %d\n", cases)
	if fails > 0 {
		t.Errorf("%d of %d bodies violate the reordering contract", fails, cases)
	}
}
