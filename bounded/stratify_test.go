package analysis

// Bounded stand-in (NOT a proof) for the two functions of C03 that are outside the verifier's subset: depGraph.sccs
// (Kosaraju with recursive closures) and depGraph.sortResult (DFS over components). Their contracts are ASSUMED by
// the deductive check of Stratify ("some partition" / "a renumbering"). Here the real Stratify is run on every
// program over N predicates in which each ordered pair (p, q) is independently: no mention, positive mention of q in
// a rule for p, or negated mention - and the result is compared with the definition of a stratification:
//   - failure exactly when some cycle of the dependency graph passes through a negated mention;
//   - otherwise every predicate is in exactly one layer, positive mentions point to the same or an earlier layer,
//     negated mentions to a strictly earlier one.
// Each program is stratified several times (Go randomises map iteration).

import (
	"fmt"
	"os"
	"testing"

	"codeberg.org/TauCeti/mangle-go/ast"
)

func TestGocvBoundedStratify(t *testing.T) {
	n := 3
	if os.Getenv("GOCV_THOROUGH") != "" {
		n = 4
	}
	preds := make([]ast.PredicateSym, n)
	for i := range preds {
		preds[i] = ast.PredicateSym{Symbol: fmt.Sprintf("p%d", i), Arity: 1}
	}
	// two of the predicates share their NAME and differ in arity only (p0/1 and p0/2 are different predicates)
	preds[1] = ast.PredicateSym{Symbol: "p0", Arity: 2}
	x := ast.Variable{Symbol: "X"}
	atom := func(i int) ast.Atom {
		args := make([]ast.BaseTerm, preds[i].Arity)
		for k := range args {
			args[k] = x
		}
		return ast.Atom{Predicate: preds[i], Args: args}
	}
	base := ast.Atom{Predicate: ast.PredicateSym{Symbol: "base", Arity: 1}, Args: []ast.BaseTerm{x}}
	pairs := n * n
	total := 1
	for i := 0; i < pairs; i++ {
		total *= 3
	}
	step := 1
	if n == 4 {
		step = 97 // 3^16 programs are too many: every 97th (coprime with 3) still hits all edge kinds per pair
	}
	cases, fails := 0, 0
	report := func(code int, msg string) {
		fails++
		if fails <= 5 {
			fmt.Printf("BOUNDED-FAIL edges=%d(base 3, pair (i,j) at digit i*n+j: 0 none, 1 positive, 2 negated) n=%d  =>  %s\n", code, n, msg)
		}
	}
	for code := 0; code < total; code += step {
		edge := make([][]int, n)
		c := code
		var rules []ast.Clause
		idb := map[ast.PredicateSym]struct{}{}
		for i := 0; i < n; i++ {
			edge[i] = make([]int, n)
			for j := 0; j < n; j++ {
				edge[i][j] = c % 3
				c /= 3
			}
		}
		for i := 0; i < n; i++ {
			idb[preds[i]] = struct{}{}
			rules = append(rules, ast.Clause{Head: atom(i), Premises: []ast.Term{base}})
			for j := 0; j < n; j++ {
				switch edge[i][j] {
				case 1:
					rules = append(rules, ast.Clause{Head: atom(i), Premises: []ast.Term{base, atom(j)}})
				case 2:
					rules = append(rules, ast.Clause{Head: atom(i), Premises: []ast.Term{base, ast.NegAtom{Atom: atom(j)}}})
				}
			}
		}
		// reachability
		reach := make([][]bool, n)
		for i := range reach {
			reach[i] = make([]bool, n)
			for j := range reach[i] {
				reach[i][j] = edge[i][j] != 0
			}
		}
		for k := 0; k < n; k++ {
			for i := 0; i < n; i++ {
				for j := 0; j < n; j++ {
					reach[i][j] = reach[i][j] || (reach[i][k] && reach[k][j])
				}
			}
		}
		negCycle := false
		for i := 0; i < n; i++ {
			for j := 0; j < n; j++ {
				if edge[i][j] == 2 && (i == j || reach[j][i]) {
					negCycle = true
				}
			}
		}
		prog := Program{EdbPredicates: map[ast.PredicateSym]struct{}{base.Predicate: {}}, IdbPredicates: idb, Rules: rules}
		for rep := 0; rep < 3; rep++ {
			cases++
			strata, predToStratum, err := Stratify(prog)
			if negCycle {
				if err == nil {
					report(code, "a cycle passes through a negated mention but Stratify returned layers")
					break
				}
				continue
			}
			if err != nil {
				report(code, "no cycle passes through a negated mention but Stratify failed: "+err.Error())
				break
			}
			bad := ""
			seen := map[ast.PredicateSym]int{}
			for li, layer := range strata {
				for p := range layer {
					seen[p]++
					if predToStratum[p] != li {
						bad = fmt.Sprintf("%v is in layer %d but predToStratum says %d", p, li, predToStratum[p])
					}
				}
			}
			for i := 0; i < n && bad == ""; i++ {
				if seen[preds[i]] != 1 {
					bad = fmt.Sprintf("%v occurs in %d layers", preds[i], seen[preds[i]])
				}
				for j := 0; j < n && bad == ""; j++ {
					si, sj := predToStratum[preds[i]], predToStratum[preds[j]]
					if edge[i][j] == 1 && sj > si {
						bad = fmt.Sprintf("%v mentions %v positively but %v is in a later layer (%d > %d)", preds[i], preds[j], preds[j], sj, si)
					}
					if edge[i][j] == 2 && sj >= si {
						bad = fmt.Sprintf("%v negates %v but %v is not in a strictly earlier layer (%d >= %d)", preds[i], preds[j], preds[j], sj, si)
					}
				}
			}
			if bad != "" {
				report(code, bad)
				break
			}
		}
	}
	fmt.Printf("BOUNDED-CASES %d\n", cases)
	if fails > 0 {
		t.Errorf("%d programs violate the stratification contract", fails)
	}
}
