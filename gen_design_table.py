#!/usr/bin/env python3
# Regenerates section 0.3 of DESIGN.md (between the markers) from manifest_meta.json and the evidence files.
import json, re
meta = json.load(open('/verif/manifest_meta.json'))
man = json.load(open('/verif/MANIFEST.json'))
levels = {c['property_id']: c['level_claimed']['category'] + ' (partial)' for c in man['checks']}
rows = []
paras = []
tot = 0
for k in sorted(meta['checks']):
    ev = json.load(open(f'/verif/evidence/{k}.json'))
    cov = ev['coverage']
    nf, nl = len(cov.get('functions_under_contract') or []), len(cov.get('lemmas') or [])
    ob = cov['obligations']
    tot += ob
    extra = []
    if cov.get('known_findings'):
        extra.append(f"+{len(cov['known_findings'])} known")
    for b in cov.get('bounded_runs') or []:
        extra.append(f"bounded: {b['cases']} cases")
    sol = cov.get('discharged_by_solver', {})
    rows.append(f"| {k} | {levels.get(k, ev.get('level',''))} | {nf} / {nl} | {ob} {'(' + ', '.join(extra) + ')' if extra else ''} | {', '.join(f'{a} {b}' for a, b in sorted(sol.items()))} | {cov.get('solver_time_s', 0):.0f} s |")
    paras.append(f"**{k}.** {meta['checks'][k]['text']}\n\n*Units, assumptions, holes:* {meta['checks'][k]['note']}\n")
out = ["| id | level | functions / lemmas under contract | obligations claimed = discharged | by solver | solver time |", "|---|---|---|---|---|---|"] + rows
out.append("| C11, C15 | not applicable | - | - | - | - |")
out.append("")
out.append(f"Total: {tot} obligations claimed and discharged over 18 checks. What each check decides (the text registered in MANIFEST.json):")
out.append("")
out += paras
txt = "\n".join(out)
p = '/verif/DESIGN.md'
s = open(p).read()
a, b = '<!-- table-0.3-begin -->', '<!-- table-0.3-end -->'
if a in s:
    s = s[:s.index(a) + len(a)] + "\n" + txt + "\n" + s[s.index(b):]
    open(p, 'w').write(s)
    print("section 0.3 regenerated:", tot, "obligations")
else:
    print("markers not found")
