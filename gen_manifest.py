#!/usr/bin/env python3
# Regenerates MANIFEST.json from props.json + manifest_meta.json (levels, notes, not-applicable reasons).
import json,subprocess
props=json.load(open('/verif/props.json'))
meta=json.load(open('/verif/manifest_meta.json'))
checks=[]
for pid in sorted(props):
    m=meta['checks'][pid]
    checks.append({
      "property_id":pid,
      "quick_cmd":f"./check {pid} quick",
      "thorough_cmd":f"./check {pid} thorough",
      "evidence_file":f"/verif/evidence/{pid}.json",
      "replay_cmd_template":"cat {path}",
      "engine":"gocv",
      "level_claimed":{"category":"proof","text":m['text'],"design_ref":m.get('design_ref','DESIGN.md section 7')},
      "level_note":m['note'],
      "technique":m.get('technique',"contract-based deductive verification: weakest-precondition VCs generated from go/ssa of the real functions, contracts in <pkg>/contracts_verif.go, discharged by z3/cvc5"),
    })
na=[{"property_id":k,"reason":v} for k,v in sorted(meta['not_applicable'].items()) if k not in props]
hooks_commits=subprocess.run(['git','-C','/repo','log','--format=%H','--grep=^verif:'],capture_output=True,text=True).stdout.split()
man={
 "version":1,
 "setup_cmd":"cd /verif/gocv && GOFLAGS=-mod=mod GOPROXY=off go build -o ../bin/gocv .",
 "hooks":{"guard":"verif","enable":"contracts are comment-only files <pkg>/contracts_verif.go (//go:build verif) read by /verif/bin/gocv; no executable hook exists, replays use go test -overlay","baseline_off_cmd":"cd /repo && GOFLAGS=-mod=mod GOPROXY=off go test -vet=off -count=1 ./...","source_commits":hooks_commits,"add_only":True},
 "engines":[{"name":"gocv","path":"/verif/gocv","serves_properties":sorted(props),"kind_free_text":"VC generator for a Go subset over go/ssa (naive form) + SMT portfolio (z3 5.1.0, z3 4.8.12, cvc5 1.0.3); contracts as //@ comments in /repo/<pkg>/contracts_verif.go"}],
 "checks":checks,
 "notes":meta.get('notes',''),
 "not_applicable":na,
}
json.dump(man,open('/verif/MANIFEST.json','w'),indent=1)
print("checks:",[c['property_id'] for c in checks],"n/a:",[x['property_id'] for x in na])
