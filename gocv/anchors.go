package main

// Loop anchors. Contracts name loops by ordinal ("loop 3", "rangeindex#2"), which shifts whenever an edit adds or
// removes a loop earlier in the function (for instance when a loop is moved into a helper). To keep harmless edits
// from detaching every later clause, /verif/loops.baseline.json records, per function, the printed header of each loop
// at the time the contracts were written. When the headers of the current source differ from the recorded list, the
// loops are aligned by header text (longest common subsequence; runs of equal length between matched loops are paired
// in order, which covers an edited header) and every loop keeps the ordinal the contract knows it by. A recorded loop
// that has no counterpart is absent (its clauses become the failing static obligation ".noloop"); a new loop gets a
// number no clause refers to. The alignment only decides where an invariant is attached: it is proved there like any
// other, so a wrong alignment can make a proof fail but cannot make one pass.

import (
	"bytes"
	"encoding/json"
	"flag"
	"fmt"
	"go/ast"
	"go/printer"
	"go/token"
	"go/types"
	"os"
	"path/filepath"
	"sort"
	"strings"
	"sync"

	"golang.org/x/tools/go/ssa"
	"golang.org/x/tools/go/ssa/ssautil"
)

type loopAnchor struct {
	Hdr string `json:"hdr"`
	RI  bool   `json:"ri,omitempty"` // the loop has a lowered range index ("rangeindex")
}

type anchorFile struct {
	Loops  map[string][]loopAnchor `json:"loops"`
	Locals map[string][]string     `json:"locals"`
	Funcs  []string                `json:"funcs"` // every function of the module that existed when the contracts were written
}

var knownFuncs map[string]bool

// isNewFunction: the module function did not exist when the anchors were recorded (typically a helper that an edit
// extracted from a function under contract). Such a callee has no contract yet; it is inlined instead of havocking
// the heap, so that moving code into a helper does not by itself lose what the caller's proof knew.
func isNewFunction(fn *ssa.Function) bool {
	a := loadAnchors()
	if len(a.Funcs) == 0 {
		return false
	}
	anchorsMu.Lock()
	defer anchorsMu.Unlock()
	if knownFuncs == nil {
		knownFuncs = map[string]bool{}
		for _, f := range a.Funcs {
			knownFuncs[f] = true
		}
	}
	return !knownFuncs[anchorKey(fn)]
}

var (
	anchorsOnce  sync.Once
	anchorsData  anchorFile
	anchorsMu    sync.Mutex
	anchorNotes  = map[string]string{}
	localAligned = map[*ssa.Function]*localAlignment{}
)

type localAlignment struct {
	rec []string     // recorded names, in block order
	cur []*ssa.Alloc // current named locals, in block order
	al  []int        // recorded position -> current position (-1: gone)
}

func loadAnchors() *anchorFile {
	anchorsOnce.Do(func() {
		anchorsData = anchorFile{Loops: map[string][]loopAnchor{}, Locals: map[string][]string{}}
		if os.Getenv("GOCV_NO_ANCHORS") != "" {
			return
		}
		readJSON(filepath.Join(verifRoot, "anchors.baseline.json"), &anchorsData)
		if anchorsData.Loops == nil {
			anchorsData.Loops = map[string][]loopAnchor{}
		}
		if anchorsData.Locals == nil {
			anchorsData.Locals = map[string][]string{}
		}
	})
	return &anchorsData
}

func loopAnchors() map[string][]loopAnchor { return loadAnchors().Loops }

// namedLocals: the named locals of a function in the order localByName counts them.
func namedLocals(fn *ssa.Function) []*ssa.Alloc {
	var out []*ssa.Alloc
	for _, b := range fn.Blocks {
		for _, in := range b.Instrs {
			if a, ok := in.(*ssa.Alloc); ok && a.Comment != "" && a.Comment != "rangeindex" {
				out = append(out, a)
			}
		}
	}
	return out
}

// anchoredLocal resolves the nth local called name through the recorded list when the function's locals have changed
// since the contracts were written (a renamed or moved local keeps the name the contract knows it by).
// handled is false when there is nothing recorded, nothing changed, or the name is not a recorded one.
func anchoredLocal(fn *ssa.Function, name string, nth int) (a *ssa.Alloc, handled bool) {
	key := anchorKey(fn)
	rec, ok := loadAnchors().Locals[key]
	if !ok {
		return nil, false
	}
	anchorsMu.Lock()
	la := localAligned[fn]
	if la == nil {
		la = &localAlignment{rec: rec, cur: namedLocals(fn)}
		names := make([]string, len(la.cur))
		same := len(names) == len(rec)
		for i, c := range la.cur {
			names[i] = c.Comment
			if same && names[i] != rec[i] {
				same = false
			}
		}
		if !same {
			la.al = alignLoops(rec, names)
			var parts []string
			for i, j := range la.al {
				if j < 0 {
					parts = append(parts, rec[i]+" gone")
				} else if names[j] != rec[i] {
					parts = append(parts, rec[i]+" is now "+names[j])
				}
			}
			if len(parts) > 0 {
				anchorNotes["locals of "+key] = strings.Join(parts, ", ")
			}
		}
		localAligned[fn] = la
	}
	anchorsMu.Unlock()
	if la.al == nil {
		return nil, false
	}
	k := 0
	for i, r := range la.rec {
		if r == name {
			k++
			if k == nth {
				if la.al[i] < 0 {
					return nil, true
				}
				return la.cur[la.al[i]], true
			}
		}
	}
	return nil, false
}

func nodeText(fset *token.FileSet, n ast.Node) string {
	if n == nil || (fmt.Sprintf("%v", n) == "<nil>") {
		return ""
	}
	var b bytes.Buffer
	printer.Fprint(&b, fset, n)
	return strings.Join(strings.Fields(b.String()), " ")
}

func loopHeaderText(fset *token.FileSet, n ast.Node) string {
	switch s := n.(type) {
	case *ast.ForStmt:
		var init, cond, post string
		if s.Init != nil {
			init = nodeText(fset, s.Init)
		}
		if s.Cond != nil {
			cond = nodeText(fset, s.Cond)
		}
		if s.Post != nil {
			post = nodeText(fset, s.Post)
		}
		return "for " + init + "; " + cond + "; " + post
	case *ast.RangeStmt:
		var k, v string
		if s.Key != nil {
			k = nodeText(fset, s.Key)
		}
		if s.Value != nil {
			v = nodeText(fset, s.Value)
		}
		return "for " + k + ", " + v + " " + s.Tok.String() + " range " + nodeText(fset, s.X)
	}
	return "?"
}

// rangeIndexAlloc: the lowered index variable of a "for range" loop, recognised by the load at its head.
func rangeIndexAlloc(li *loopInfo) *ssa.Alloc {
	for _, in := range li.header.Instrs {
		if ld, ok := in.(*ssa.UnOp); ok && ld.Op == token.MUL {
			if a, ok := ld.X.(*ssa.Alloc); ok && a.Comment == "rangeindex" {
				return a
			}
		}
	}
	return nil
}

// alignLoops maps positions of the recorded list to positions of the current list (-1: no counterpart).
func alignLoops(old, cur []string) []int {
	n, m := len(old), len(cur)
	L := make([][]int, n+1)
	for i := range L {
		L[i] = make([]int, m+1)
	}
	for i := n - 1; i >= 0; i-- {
		for j := m - 1; j >= 0; j-- {
			if old[i] == cur[j] {
				L[i][j] = L[i+1][j+1] + 1
			} else if L[i+1][j] >= L[i][j+1] {
				L[i][j] = L[i+1][j]
			} else {
				L[i][j] = L[i][j+1]
			}
		}
	}
	res := make([]int, n)
	for i := range res {
		res[i] = -1
	}
	i, j := 0, 0
	gi, gj := 0, 0 // start of the current unmatched run
	flush := func(ei, ej int) {
		if ei-gi == ej-gj {
			for k := 0; k < ei-gi; k++ {
				res[gi+k] = gj + k
			}
		}
	}
	for i < n && j < m {
		if old[i] == cur[j] {
			flush(i, j)
			res[i] = j
			i++
			j++
			gi, gj = i, j
		} else if L[i+1][j] >= L[i][j+1] {
			i++
		} else {
			j++
		}
	}
	flush(n, m)
	// leftovers that moved: pair a recorded entry with the only unused current entry of the same text
	used := map[int]bool{}
	for _, j := range res {
		if j >= 0 {
			used[j] = true
		}
	}
	for i := range res {
		if res[i] >= 0 {
			continue
		}
		cand, cnt := -1, 0
		for j := range cur {
			if !used[j] && cur[j] == old[i] {
				cand = j
				cnt++
			}
		}
		if cnt == 1 {
			res[i] = cand
			used[cand] = true
		}
	}
	return res
}

// applyAnchors renumbers the loops of fn (given in source order with their printed headers) so that each keeps the
// ordinal recorded for it. Returns true when a re-alignment took place.
func applyAnchors(fn *ssa.Function, ordered []*loopInfo, hdrs []string) bool {
	key := anchorKey(fn)
	rec, ok := loopAnchors()[key]
	if !ok {
		return false
	}
	same := len(rec) == len(hdrs)
	if same {
		for i := range rec {
			if rec[i].Hdr != hdrs[i] {
				same = false
			}
		}
	}
	if same {
		return false
	}
	old := make([]string, len(rec))
	for i, r := range rec {
		old[i] = r.Hdr
	}
	al := alignLoops(old, hdrs)
	taken := map[int]bool{}
	for oi, ci := range al {
		if ci >= 0 {
			ordered[ci].number = oi + 1
			taken[ci] = true
		}
	}
	for ci, li := range ordered {
		if !taken[ci] {
			li.number = 1000 + ci + 1
		}
	}
	// "rangeindex#k": the k-th recorded loop with a range index
	for oi, ci := range al {
		if ci >= 0 && rec[oi].RI {
			k := 0
			for q := 0; q <= oi; q++ {
				if rec[q].RI {
					k++
				}
			}
			ordered[ci].riOrdinal = k
		}
	}
	var parts []string
	for oi, ci := range al {
		if ci < 0 {
			parts = append(parts, fmt.Sprintf("loop %d gone", oi+1))
		} else if ci != oi {
			parts = append(parts, fmt.Sprintf("loop %d is now the %d. loop", oi+1, ci+1))
		}
	}
	anchorsMu.Lock()
	anchorNotes["loops of "+key] = strings.Join(parts, ", ")
	anchorsMu.Unlock()
	return true
}

func anchorNoteList() []string {
	anchorsMu.Lock()
	defer anchorsMu.Unlock()
	var out []string
	for k, v := range anchorNotes {
		out = append(out, k+" re-anchored to the recorded contract names ("+v+")")
	}
	sort.Strings(out)
	return out
}

// cmdAnchors records the loop headers of every function of the module that has a loop.
func cmdAnchors(args []string) {
	fs := flag.NewFlagSet("anchors", flag.ExitOnError)
	repo := fs.String("repo", "/repo", "repository root")
	fs.Parse(args)
	os.Setenv("GOCV_NO_ANCHORS", "1")
	prog, err := loadProgram(*repo, []string{"./..."}, nil, filepath.Join(verifRoot, "libspec"))
	if err != nil {
		fmt.Fprintln(os.Stderr, err)
		os.Exit(2)
	}
	out := map[string][]loopAnchor{}
	locals := map[string][]string{}
	var funcs []string
	for fn := range ssautil.AllFunctions(prog.ssaProg) {
		if !strings.HasPrefix(funcPkgPath(fn), modPrefix) || len(fn.Blocks) == 0 || fn.Syntax() == nil {
			continue
		}
		if fn.Origin() != nil {
			continue
		}
		funcs = append(funcs, anchorKey(fn))
		if ls := namedLocals(fn); len(ls) > 0 {
			var ns []string
			for _, a := range ls {
				ns = append(ns, a.Comment)
			}
			locals[anchorKey(fn)] = ns
		}
		loops := findLoops(fn)
		if len(loops) == 0 {
			continue
		}
		var ord []*loopInfo
		for _, li := range loops {
			ord = append(ord, li)
		}
		sort.Slice(ord, func(i, j int) bool { return ord[i].number < ord[j].number })
		if ord[0].hdr == "" && ord[0].lexStart == 0 {
			continue // statements and natural loops do not correspond: ordinal numbering only
		}
		var as []loopAnchor
		for _, li := range ord {
			as = append(as, loopAnchor{Hdr: li.hdr, RI: rangeIndexAlloc(li) != nil})
		}
		out[anchorKey(fn)] = as
	}
	sort.Strings(funcs)
	b, _ := json.Marshal(anchorFile{Loops: out, Locals: locals, Funcs: funcs})
	var pretty bytes.Buffer
	json.Indent(&pretty, b, "", " ")
	os.WriteFile(filepath.Join(verifRoot, "anchors.baseline.json"), append(pretty.Bytes(), '\n'), 0o644)
	fmt.Printf("recorded loop headers of %d functions, named locals of %d functions\n", len(out), len(locals))
}

// anchorKey: like funcKey, but a function literal is named after its outermost enclosing function including the
// receiver type (funcKey names it by the bare outer name, which two methods called alike would share).
func anchorKey(fn *ssa.Function) string {
	root := fn
	for root.Parent() != nil {
		root = root.Parent()
	}
	if root == fn {
		return funcKey(fn)
	}
	return funcKey(root) + strings.TrimPrefix(fn.Name(), root.Name())
}

func funcPkgPath(fn *ssa.Function) string {
	for f := fn; f != nil; f = f.Parent() {
		if f.Pkg != nil {
			return f.Pkg.Pkg.Path()
		}
	}
	return ""
}

// ---- a loop that changed its form -----------------------------------------------------------------------------
// "for i, x := range xs" and "for i := 0; i < len(xs); i++ { x := xs[i]" are the same loop, but the lowered range
// loop counts in a hidden variable (the contract's "rangeindex") that is one behind at the head, while the counter
// loop's own variable is one ahead there. When a function's loops or locals have been re-anchored:
//   - "rangeindex" of a loop that is now a counter loop denotes the counter (minus one at the head and on back edges);
//   - the key variable of a loop that is now a range loop denotes, at the head and on back edges, rangeindex plus one
//     (inside the body it is the variable itself).
// This only decides what a name in a clause refers to; every clause is still proved.

func allocAt(fn *ssa.Function, pos token.Pos) *ssa.Alloc {
	for _, b := range fn.Blocks {
		for _, in := range b.Instrs {
			if a, ok := in.(*ssa.Alloc); ok && a.Pos() == pos {
				return a
			}
		}
	}
	return nil
}

func isIntAlloc(a *ssa.Alloc) bool {
	p, ok := a.Type().(*types.Pointer)
	if !ok {
		return false
	}
	b, ok := p.Elem().Underlying().(*types.Basic)
	return ok && b.Kind() == types.Int
}

// counterOf: the counter variable of a loop of the form "for i := e; ...; i++".
func counterOf(fn *ssa.Function, li *loopInfo) *ssa.Alloc {
	fs, ok := li.stmt.(*ast.ForStmt)
	if !ok || fs.Init == nil || fs.Post == nil {
		return nil
	}
	as, ok := fs.Init.(*ast.AssignStmt)
	if !ok || as.Tok != token.DEFINE || len(as.Lhs) != 1 {
		return nil
	}
	id, ok := as.Lhs[0].(*ast.Ident)
	if !ok {
		return nil
	}
	inc, ok := fs.Post.(*ast.IncDecStmt)
	if !ok || inc.Tok != token.INC {
		return nil
	}
	if pid, ok := inc.X.(*ast.Ident); !ok || pid.Name != id.Name {
		return nil
	}
	a := allocAt(fn, id.Pos())
	if a == nil || !isIntAlloc(a) {
		return nil
	}
	return a
}

// rangeKeyLoop: the range loop (with a hidden index) whose key variable a is.
func rangeKeyLoop(fr *Frame, a *ssa.Alloc) *loopInfo {
	for _, li := range fr.loops {
		rs, ok := li.stmt.(*ast.RangeStmt)
		if !ok || rs.Tok != token.DEFINE || rs.Key == nil {
			continue
		}
		if id, ok := rs.Key.(*ast.Ident); ok && id.Pos() == a.Pos() && rangeIndexAlloc(li) != nil && isIntAlloc(a) {
			return li
		}
	}
	return nil
}

func frameReanchored(fr *Frame) bool {
	for _, li := range fr.loops {
		if li.reanchored {
			return true
		}
	}
	anchorsMu.Lock()
	defer anchorsMu.Unlock()
	la := localAligned[fr.fn]
	return la != nil && la.al != nil
}

// counterBoundInvariant: for a loop that was a range loop when the contracts were written and is now
// "for k := 0; k < B; k++", the clause "0 <= k && k <= B". A range loop's hidden index is within bounds by
// construction of its lowering; the counter loop needs the same fact as an invariant. It is PROVED like any other
// invariant (obligations ...init.autoinv / ...step.autoinv, which every check counts as claimed), not assumed.
func counterBoundInvariant(fn *ssa.Function, li *loopInfo) *Clause {
	fs, ok := li.stmt.(*ast.ForStmt)
	if !ok || fs.Cond == nil || counterOf(fn, li) == nil {
		return nil
	}
	as := fs.Init.(*ast.AssignStmt)
	if lit, ok := as.Rhs[0].(*ast.BasicLit); !ok || lit.Value != "0" {
		return nil
	}
	be, ok := fs.Cond.(*ast.BinaryExpr)
	if !ok || be.Op != token.LSS {
		return nil
	}
	id, ok := be.X.(*ast.Ident)
	if !ok || id.Name != as.Lhs[0].(*ast.Ident).Name {
		return nil
	}
	// the counter is referred to by a made-up name bound to exactly this variable (the function may have several
	// locals of the same name)
	alias := fmt.Sprintf("gocvctr%d", li.number)
	txt := "0 <= " + alias + " && " + alias + " <= " + nodeText(fn.Prog.Fset, be.Y)
	e, err := parseExpr(txt)
	if err != nil {
		return nil
	}
	shown := "0 <= " + id.Name + " && " + id.Name + " <= " + nodeText(fn.Prog.Fset, be.Y)
	return &Clause{Kind: "invariant", Text: shown + "  (synthesised: the loop was a range loop when the contract was written)", Expr: e, Label: "autoinv"}
}
