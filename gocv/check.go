package main

// check: the per-property deciding step (obligations vs. baseline, known findings, evidence).

import (
	"encoding/json"
	"flag"
	"fmt"
	"os"
	"os/exec"
	"path/filepath"
	"regexp"
	"sort"
	"strconv"
	"strings"
	"sync"
	"time"
)

type PropSpec struct {
	Units       []string `json:"units"`
	Pkgs        []string `json:"pkgs"`
	Trusted     []string `json:"trusted_base"`
	Assumptions []string `json:"assumptions"`
	Bounded     []string `json:"bounded"`
	Title       string   `json:"title"`
	// bounded stand-ins: test files under /verif/bounded run against the real package through an overlay; labelled
	// bounded in the evidence and never counted among the proved obligations
	BoundedTests []BoundedTest `json:"bounded_tests"`
}

type BoundedTest struct {
	Name  string `json:"name"`  // class name reported: bounded:<name>
	Pkg   string `json:"pkg"`   // package directory relative to the repository
	File  string `json:"file"`  // file under /verif/bounded
	Test  string `json:"test"`  // test function
	Bound string `json:"bound"` // the stated bound
}

// runBounded executes one bounded stand-in. The test prints "BOUNDED-CASES <n>" when it ran to the end and
// "BOUNDED-FAIL <input> <what>" for each failing case.
func runBounded(repo string, bt BoundedTest, thorough bool) (cases int, fails []string, out string) {
	tmp, _ := os.MkdirTemp("", "gocv-bounded")
	defer os.RemoveAll(tmp)
	pkgDir := filepath.Join(repo, bt.Pkg)
	ov, _ := json.Marshal(map[string]interface{}{"Replace": map[string]string{filepath.Join(pkgDir, "gocv_bounded_test.go"): filepath.Join(verifRoot, "bounded", bt.File)}})
	ovf := filepath.Join(tmp, "ov.json")
	os.WriteFile(ovf, ov, 0o644)
	cmd := exec.Command("bash", "-c", fmt.Sprintf("cd %s && go test -overlay %s -vet=off -count=1 -timeout 300s -run '^%s$' -v .", pkgDir, ovf, bt.Test))
	cmd.Env = append(os.Environ(), "GOFLAGS=-mod=mod", "GOPROXY=off")
	if thorough {
		cmd.Env = append(cmd.Env, "GOCV_THOROUGH=1")
	}
	b, _ := cmd.CombinedOutput()
	out = string(b)
	cases = -1
	for _, l := range strings.Split(out, "\n") {
		l = strings.TrimSpace(l)
		if strings.HasPrefix(l, "BOUNDED-CASES ") {
			fmt.Sscanf(strings.TrimPrefix(l, "BOUNDED-CASES "), "%d", &cases)
		}
		if strings.HasPrefix(l, "BOUNDED-FAIL ") {
			fails = append(fails, strings.TrimPrefix(l, "BOUNDED-FAIL "))
		}
	}
	return
}

type KnownFinding struct {
	Property   string `json:"property"`
	Obligation string `json:"obligation"` // obligation class (function#clause)
	Witness    string `json:"witness"`
	Status     string `json:"status"` // known | fixed
	Commit     string `json:"commit,omitempty"`
	What       string `json:"what"`
	// optional: a Go test body (package-internal) that prints WITNESS-REPRODUCED while the finding is present
	WitnessPkg  string `json:"witness_pkg,omitempty"`
	WitnessTest string `json:"witness_test,omitempty"`
}

var verifRoot = "/verif"

func readJSON(path string, v interface{}) error {
	b, err := os.ReadFile(path)
	if err != nil {
		return err
	}
	return json.Unmarshal(b, v)
}

var classRe = regexp.MustCompile(`(@ret\d+|@b\d+)`)
var trailingNum = regexp.MustCompile(`#(index|slice|nil|div|assert|make|panic|overflow|nilmap|decreases)\d+$`)
var callNum = regexp.MustCompile(`\)\d+\.`)
var guardNum = regexp.MustCompile(`\)\d+$`)

// oblClass strips positional ordinals so that harmless edits do not rename an obligation's class.
func oblClass(name string) string {
	s := classRe.ReplaceAllString(name, "")
	s = trailingNum.ReplaceAllString(s, "#$1")
	s = callNum.ReplaceAllString(s, ").")
	s = guardNum.ReplaceAllString(s, ")")
	return s
}

type oblReport struct {
	Name   string  `json:"name"`
	Class  string  `json:"class"`
	Kind   string  `json:"kind"`
	Status string  `json:"status"`
	Solver string  `json:"solver"`
	Time   float64 `json:"time_s"`
	Text   string  `json:"text"`
	Pos    string  `json:"pos,omitempty"`
}

func checkMain(args []string) {
	fs := flag.NewFlagSet("check", flag.ExitOnError)
	prop := fs.String("prop", "", "property id")
	tier := fs.String("tier", "quick", "quick|thorough")
	repo := fs.String("repo", "/repo", "repository root")
	update := fs.Bool("update-baseline", false, "record the discharged obligation classes as baseline")
	evidence := fs.String("evidence", "", "evidence file (default /verif/evidence/<id>.json)")
	verbose := fs.Bool("v", false, "verbose")
	fs.Parse(args)
	if *prop == "" {
		fmt.Fprintln(os.Stderr, "check: -prop required")
		os.Exit(2)
	}
	t0 := time.Now()
	seed := 0
	if s := os.Getenv("VERIF_SEED"); s != "" {
		seed, _ = strconv.Atoi(s)
	}
	props := map[string]*PropSpec{}
	if err := readJSON(filepath.Join(verifRoot, "props.json"), &props); err != nil {
		fmt.Fprintln(os.Stderr, "props.json:", err)
		os.Exit(2)
	}
	ps := props[*prop]
	if ps == nil {
		fmt.Fprintf(os.Stderr, "property %s has no units in props.json\n", *prop)
		os.Exit(2)
	}
	baseline := map[string][]string{}
	readJSON(filepath.Join(verifRoot, "obligations.baseline.json"), &baseline)
	var known []KnownFinding
	readJSON(filepath.Join(verifRoot, "known_findings.json"), &known)

	secs := 10
	if *tier == "thorough" {
		secs = 60
	}
	evPath := *evidence
	if evPath == "" {
		evPath = filepath.Join(verifRoot, "evidence", *prop+".json")
		if d := os.Getenv("GOCV_EVIDENCE_DIR"); d != "" {
			// runs against deliberately modified trees (seeded changes) must not overwrite the evidence
			evPath = filepath.Join(d, *prop+".json")
		}
	}
	os.MkdirAll(filepath.Dir(evPath), 0o755)
	os.MkdirAll(filepath.Join(verifRoot, "replays"), 0o755)

	violations := 0
	var vioLines []string
	violate := func(replay string, noInput bool) {
		violations++
		l := fmt.Sprintf("VIOLATION property=%s replay=%s", *prop, replay)
		if noInput {
			l += " no-failing-input-found"
		}
		vioLines = append(vioLines, l)
		fmt.Println(l)
	}

	patterns := ps.Pkgs
	if len(patterns) == 0 {
		patterns = pkgPatternsFor(stripPrefixes(ps.Units), nil)
	}
	prog, err := loadProgram(*repo, patterns, nil, filepath.Join(verifRoot, "libspec"))
	if err != nil {
		// the tree does not load: the check cannot run; this is an error, not a property violation
		fmt.Fprintln(os.Stderr, "cannot load the repository:", err)
		writeEvidence(evPath, *prop, *tier, seed, nil, nil, ps, prog, time.Since(t0).Seconds(), 0, []string{"load error: " + err.Error()}, nil)
		os.Exit(2)
	}
	dir, _ := os.MkdirTemp("", "gocv-"+*prop)
	defer os.RemoveAll(dir)
	var frs []*FuncResult
	for _, u := range ps.Units {
		frs = append(frs, prog.verifyKey(u))
	}
	results := runObligations(frs, dir, secs, true)

	base := map[string]bool{}
	for _, c := range baseline[*prop] {
		base[c] = true
	}
	// A synthesised loop invariant (anchors.go) is assumed at the loop head like a written one, so its proof
	// obligations always count, whether or not a baseline lists them.
	for _, r := range results {
		if strings.HasSuffix(oblClass(r.O.Name), ".autoinv") {
			base[oblClass(r.O.Name)] = true
		}
	}
	// A claimed obligation that ran out of time (no solver said sat) is tried once more, alone and with a longer limit,
	// before it is reported: a loaded machine must not turn into a false alarm. At most a few are retried so that a
	// genuinely broken tree is still reported quickly.
	if !*update {
		var again []*OblResult
		for _, r := range results {
			if r.OK || !base[oblClass(r.O.Name)] || len(again) >= 12 {
				continue
			}
			if r.R.Status != "timeout" && r.R.Status != "unknown" && r.R.Status != "error" {
				continue
			}
			again = append(again, r)
		}
		var wg sync.WaitGroup
		for _, r := range again {
			wg.Add(1)
			go func(r *OblResult) {
				defer wg.Done()
				r2 := solve(r.Qry, dir, r.O.Name+"_retry", 4*secs, nil)
				want := "unsat"
				if r.O.Expect == "sat" {
					want = "sat"
				}
				if r2.Status == want {
					r.R = r2
					r.OK = true
				} else if r.O.Expect == "sat" && r2.Status == "unsat" {
					r.R = r2 // the precondition IS contradictory
				}
			}(r)
		}
		wg.Wait()
	}
	knownFor := map[string]*KnownFinding{}
	for i := range known {
		if known[i].Property == *prop && known[i].Status == "known" {
			knownFor[known[i].Obligation] = &known[i]
		}
	}
	// classes: all instances must be discharged
	classOK := map[string]bool{}
	classSeen := map[string]bool{}
	var reports []oblReport
	var undecided []string
	byClassFail := map[string][]*OblResult{}
	var vacuityOpen []string
	for _, r := range results {
		c := oblClass(r.O.Name)
		if r.O.Expect == "sat" && !r.OK && r.R.Status != "unsat" && !*update {
			// A vacuity guard asks the solver for a model of the precondition. Only "unsat" says the precondition is
			// contradictory; running out of time says nothing about the code, so it is reported as open, not as a violation,
			// and is left out of the counts.
			classSeen[c] = true
			vacuityOpen = append(vacuityOpen, r.O.Name+" ("+r.R.Status+")")
			r.Skip = true
			continue
		}
		if !classSeen[c] {
			classSeen[c] = true
			classOK[c] = true
		}
		if !r.OK {
			classOK[c] = false
			byClassFail[c] = append(byClassFail[c], r)
		}
		pos := ""
		if r.O.Pos.IsValid() {
			pos = fmt.Sprintf("%s:%d", strings.TrimPrefix(r.O.Pos.Filename, "/repo/"), r.O.Pos.Line)
		}
		reports = append(reports, oblReport{Name: r.O.Name, Class: c, Kind: r.O.Kind, Status: r.R.Status, Solver: r.R.Solver, Time: r.R.Time, Text: r.O.Text, Pos: pos})
	}
	// functions that could not be translated at all
	var errs []string
	for _, fr := range frs {
		if fr.Err != nil {
			errs = append(errs, fr.Key+": "+fr.Err.Error())
		}
	}

	if *update {
		var cl []string
		for c, ok := range classOK {
			if ok && knownFor[c] == nil {
				cl = append(cl, c)
			}
		}
		sort.Strings(cl)
		baseline[*prop] = cl
		b, _ := json.MarshalIndent(baseline, "", " ")
		os.WriteFile(filepath.Join(verifRoot, "obligations.baseline.json"), b, 0o644)
		fmt.Printf("baseline for %s: %d obligation classes (%d failing classes not recorded)\n", *prop, len(cl), len(byClassFail))
		for c, rs := range byClassFail {
			fmt.Printf("  not discharged: %s (%s)\n", c, rs[0].R.Status)
		}
		for _, e := range errs {
			fmt.Printf("  ERROR: %s\n", e)
		}
		base = map[string]bool{}
		for _, c := range cl {
			base[c] = true
		}
	}

	// decide
	claimed, discharged := 0, 0
	for _, r := range results {
		c := oblClass(r.O.Name)
		if base[c] && !r.Skip {
			claimed++
			if r.OK {
				discharged++
			}
		}
	}
	var classes []string
	for c := range byClassFail {
		classes = append(classes, c)
	}
	sort.Strings(classes)
	knownPrinted := map[string]bool{}
	var knownLines []string
	for _, c := range classes {
		rs := byClassFail[c]
		if kf := knownFor[c]; kf != nil && kf.WitnessTest != "" {
			// the recorded witness must still reproduce on the real code; otherwise this failure is something else
			if ok, detail := runWitness(*repo, kf); !ok {
				rp := filepath.Join(verifRoot, "replays", *prop+"_"+mangle(c)+"_witness.json")
				writeReplay(rp, *prop, c, rs[0], false, "the obligation of a known finding fails, but its recorded witness no longer reproduces: "+detail)
				violate(rp, true)
				continue
			}
		}
		if kf := knownFor[c]; kf != nil {
			if !knownPrinted[c] {
				knownPrinted[c] = true
				l := fmt.Sprintf("KNOWN-FINDING: property=%s %s %s", *prop, c, kf.What)
				knownLines = append(knownLines, l)
				fmt.Println(l)
			}
			continue
		}
		if !base[c] && rs[0].O.Kind == "static" {
			// decidable static obligations (e.g. a new package-level variable written outside init) never go unnoticed
			rp := filepath.Join(verifRoot, "replays", *prop+"_"+mangle(c)+".json")
			writeReplay(rp, *prop, c, rs[0], false, "static obligation: "+rs[0].O.Text)
			claimed++
			violate(rp, true)
			continue
		}
		if !base[c] {
			for _, r := range rs {
				undecided = append(undecided, r.O.Name+" ("+r.R.Status+")")
			}
			continue
		}
		// regression of a claimed obligation
		r := rs[0]
		rp := filepath.Join(verifRoot, "replays", *prop+"_"+mangle(c)+".json")
		confirmed, detail := tryReplay(prog, r, *repo)
		writeReplay(rp, *prop, c, r, confirmed, detail)
		violate(rp, !confirmed)
	}
	// Known findings that no obligation carries (the defect lies in code or in a whole-run property that no contract
	// within reach states): identified by their witness alone. The witness is run against the real code; while it
	// reproduces, the finding is printed; once it no longer does, nothing is printed (it does not suppress anything
	// either way).
	for i := range known {
		kf := &known[i]
		if kf.Property != *prop || kf.Status != "known" || !strings.HasPrefix(kf.Obligation, "(none") || kf.WitnessTest == "" {
			continue
		}
		if ok, _ := runWitness(*repo, kf); ok {
			l := fmt.Sprintf("KNOWN-FINDING: property=%s witness-only %s", *prop, kf.What)
			knownLines = append(knownLines, l)
			fmt.Println(l)
		}
	}
	// claimed classes that were not generated at all (function left the subset, disappeared, ...)
	var missing []string
	for c := range base {
		if !classSeen[c] {
			missing = append(missing, c)
		}
	}
	sort.Strings(missing)
	if len(missing) > 0 {
		// group by function
		byFn := map[string][]string{}
		for _, c := range missing {
			fn := c
			if i := strings.Index(c, "#"); i >= 0 {
				fn = c[:i]
			}
			byFn[fn] = append(byFn[fn], c)
		}
		var fns []string
		for f := range byFn {
			fns = append(fns, f)
		}
		sort.Strings(fns)
		for _, f := range fns {
			reason := "obligations were not generated"
			for _, e := range errs {
				if strings.HasPrefix(e, f+":") {
					reason = e
				}
			}
			// a missing class is a regression only if the function itself failed to translate or vanished;
			// classes that vanish because the code no longer contains the construct (e.g. an index expression was removed) are fine.
			fnFailed := false
			for _, fr := range frs {
				if fr.Key == f && fr.Err != nil {
					fnFailed = true
				}
			}
			onlySafety := true
			for _, c := range byFn[f] {
				if !isSafetyClass(c) {
					onlySafety = false
				}
			}
			if !fnFailed && onlySafety {
				continue
			}
			rp := filepath.Join(verifRoot, "replays", *prop+"_"+mangle(f)+"_missing.json")
			writeReplayMissing(rp, *prop, f, byFn[f], reason)
			claimed += len(byFn[f])
			violate(rp, true)
		}
	}
	var boundedReports []map[string]interface{}
	for _, bt := range ps.BoundedTests {
		cases, fails, out := runBounded(*repo, bt, *tier == "thorough")
		st := "held on every case"
		if cases < 0 || len(fails) > 0 {
			rp := filepath.Join(verifRoot, "replays", *prop+"_bounded_"+mangle(bt.Name)+".json")
			m := map[string]interface{}{"property": *prop, "bounded_standin": bt.Name, "bound": bt.Bound, "failing_cases": fails, "output": trunc(out, 20000),
				"replay": fmt.Sprintf("cd /repo/%s && go test -overlay <{Replace: gocv_bounded_test.go -> /verif/bounded/%s}> -vet=off -run '^%s$' -v .", bt.Pkg, bt.File, bt.Test)}
			if cases < 0 && len(fails) == 0 {
				m["note"] = "no-failing-input-found: the bounded stand-in did not run to the end (it no longer compiles against the package, or it crashed)"
				st = "did not run"
			} else {
				st = fmt.Sprintf("%d failing cases", len(fails))
			}
			b, _ := json.MarshalIndent(m, "", " ")
			os.WriteFile(rp, b, 0o644)
			violate(rp, len(fails) == 0)
		}
		var sample interface{}
		if len(fails) > 0 {
			sample = fails[0]
		}
		boundedReports = append(boundedReports, map[string]interface{}{"name": "bounded:" + bt.Name, "label": "bounded (not a proof; not counted in obligations/discharged)", "bound": bt.Bound, "cases": cases, "result": st, "first_failure": sample})
		fmt.Printf("bounded stand-in %s: %d cases, %s\n", bt.Name, cases, st)
	}
	if *verbose {
		for _, r := range reports {
			fmt.Printf("%-7s %-7s %5.2fs %s\n", r.Status, r.Solver, r.Time, r.Name)
		}
	}
	if len(undecided) > 0 {
		fmt.Printf("note: %d obligations outside the claimed baseline are undecided (not counted): %s\n", len(undecided), trunc(strings.Join(undecided, ", "), 400))
	}
	for _, e := range errs {
		fmt.Println("note: not translated: " + e)
	}
	if len(vacuityOpen) > 0 {
		fmt.Printf("note: %d vacuity guards (precondition satisfiable) got no answer from the solvers in this run and are not counted: %s\n", len(vacuityOpen), trunc(strings.Join(vacuityOpen, ", "), 400))
		for _, v := range vacuityOpen {
			undecided = append(undecided, "vacuity guard open: "+v)
		}
	}
	for _, n := range anchorNoteList() {
		fmt.Println("note: " + n)
		undecided = append(undecided, n)
	}
	wall := time.Since(t0).Seconds()
	writeEvidence(evPath, *prop, *tier, seed, reports, frs, ps, prog, wall, violations, append(undecided, errs...), &evCounts{claimed: claimed, discharged: discharged, known: knownLines, base: base, bounded: boundedReports})
	fmt.Printf("%s %s: %d obligations claimed, %d discharged, %d known findings, %d violations, %.1fs\n", *prop, *tier, claimed, discharged, len(knownLines), violations, wall)
	if violations > 0 {
		os.RemoveAll(dir) // os.Exit skips the deferred removal
		os.Exit(1)
	}
}

func isSafetyClass(c string) bool {
	// (a frame obligation is only generated for a heap component the function writes: it disappears when the code no
	// longer touches the component, which satisfies it trivially)
	for _, k := range []string{"#index", "#slice", "#nil", "#div", "#assert", "#make", "#panic", "#overflow", "#nilmap", "#call(", "#frame("} {
		if strings.Contains(c, k) {
			return true
		}
	}
	return false
}

func stripPrefixes(units []string) []string {
	var out []string
	for _, u := range units {
		u = strings.TrimPrefix(u, "lemma:")
		u = strings.TrimPrefix(u, "sweep:")
		out = append(out, u)
	}
	return out
}

type evCounts struct {
	claimed, discharged int
	known               []string
	base                map[string]bool
	bounded             []map[string]interface{}
}

func writeEvidence(path, prop, tier string, seed int, reports []oblReport, frs []*FuncResult, ps *PropSpec, prog *Program, wall float64, violations int, undecided []string, ec *evCounts) {
	type cov struct {
		Obligations int                      `json:"obligations"`
		Discharged  int                      `json:"discharged"`
		CheckerCmd  string                   `json:"checker_cmd"`
		Trusted     []string                 `json:"trusted_base"`
		Samples     []interface{}            `json:"samples"`
		Functions   []string                 `json:"functions_under_contract"`
		Lemmas      []string                 `json:"lemmas"`
		BySolver    map[string]int           `json:"discharged_by_solver"`
		SolverTime  float64                  `json:"solver_time_s"`
		Undecided   []string                 `json:"undecided_unclaimed"`
		Known       []string                 `json:"known_findings"`
		Bounded     []string                 `json:"bounded_standins"`
		BoundedRuns []map[string]interface{} `json:"bounded_runs,omitempty"`
		Notes       []string                 `json:"unmodelled_or_uncontracted"`
		Dropped     []string                 `json:"extraction_drops"`
		ByKind      map[string]int           `json:"obligations_by_kind"`
		All         []oblReport              `json:"all_obligations,omitempty"`
	}
	c := cov{CheckerCmd: fmt.Sprintf("/verif/bin/gocv check -prop %s -tier %s (z3-new 5.1.0 | z3 4.8.12 | cvc5 1.0.3 raced per obligation)", prop, tier),
		BySolver: map[string]int{}, ByKind: map[string]int{}, Samples: []interface{}{}}
	c.Trusted = []string{
		"gocv VC generator (this repository, /verif/gocv) and its encoding of Go semantics over go/ssa naive form (x/tools v0.29.0)",
		"SMT solvers z3 5.1.0, z3 4.8.12, cvc5 1.0.3",
		"Go compiler and runtime implement the Go specification as go/ssa models it",
	}
	c.Dropped = []string{
		"slice aliasing (slices are pure sequences)", "goroutines and scheduling", "floating-point meaning (uninterpreted)",
		"panics inside uncontracted callees, memory exhaustion, stack depth", "map iteration order is arbitrary (all orders)",
		"string contents beyond length/byte-at/substring axioms", "termination unless a decreases/variant clause is present",
		"slice capacity (length is used for capacity in slice-bounds obligations)",
	}
	if ps != nil {
		c.Trusted = append(c.Trusted, ps.Trusted...)
		c.Bounded = ps.Bounded
	}
	if prog != nil {
		c.Trusted = append(c.Trusted, prog.cs.Assumed...)
	}
	noteSet := map[string]bool{}
	for _, fr := range frs {
		if fr.Lemma {
			c.Lemmas = append(c.Lemmas, fr.Key)
		} else {
			c.Functions = append(c.Functions, fr.Key)
		}
		for _, n := range fr.Notes {
			if !noteSet[n] {
				noteSet[n] = true
				c.Notes = append(c.Notes, n)
			}
		}
	}
	sort.Strings(c.Notes)
	if ec != nil {
		c.Obligations = ec.claimed
		c.Discharged = ec.discharged
		c.Known = ec.known
		c.BoundedRuns = ec.bounded
	}
	for _, r := range reports {
		if ec != nil && !ec.base[r.Class] {
			continue
		}
		c.ByKind[r.Kind]++
		if r.Status == "unsat" || (r.Kind == "presat" && r.Status == "sat") {
			c.BySolver[r.Solver]++
		}
		c.SolverTime += r.Time
		if len(c.Samples) < 6 && (r.Kind == "ensures" || r.Kind == "lemma" || r.Kind == "loop.step" || r.Kind == "emits") {
			c.Samples = append(c.Samples, map[string]interface{}{"obligation": r.Name, "statement": r.Text, "status": r.Status, "solver": r.Solver, "time_s": r.Time, "pos": r.Pos})
		}
	}
	if len(c.Samples) == 0 {
		for _, r := range reports {
			if len(c.Samples) < 4 {
				c.Samples = append(c.Samples, map[string]interface{}{"obligation": r.Name, "statement": r.Text, "status": r.Status})
			}
		}
	}
	c.Undecided = undecided
	c.All = reports
	ev := map[string]interface{}{
		"property_id": prop, "tier": tier, "seed": seed, "level": "proof", "coverage": c, "wall_s": wall, "violations": violations,
	}
	as := []string{"machine integers: mode int proves absence of overflow per operation (or lists 'nooverflow' functions); mode bv is exact"}
	if ps != nil {
		as = append(as, ps.Assumptions...)
	}
	ev["assumptions"] = as
	b, _ := json.MarshalIndent(ev, "", " ")
	os.WriteFile(path, b, 0o644)
}

func writeReplay(path, prop, class string, r *OblResult, confirmed bool, detail string) {
	m := map[string]interface{}{
		"property": prop, "obligation": r.O.Name, "class": class, "statement": r.O.Text,
		"solver_status": r.R.Status, "solver": r.R.Solver, "solver_output": trunc(r.R.Raw, 20000),
		"tried": r.R.Tried, "replay_confirmed": confirmed, "replay_detail": detail,
	}
	if r.O.Pos.IsValid() {
		m["pos"] = fmt.Sprintf("%s:%d", r.O.Pos.Filename, r.O.Pos.Line)
	}
	if !confirmed {
		m["note"] = "no-failing-input-found: the obligation was discharged on the unchanged tree and is not discharged now; no concrete input was confirmed against the real code"
	}
	b, _ := json.MarshalIndent(m, "", " ")
	os.WriteFile(path, b, 0o644)
}

func writeReplayMissing(path, prop, fn string, classes []string, reason string) {
	m := map[string]interface{}{
		"property": prop, "function": fn, "obligations": classes, "reason": reason,
		"note": "no-failing-input-found: obligations that were discharged on the unchanged tree can no longer be generated for this function",
	}
	b, _ := json.MarshalIndent(m, "", " ")
	os.WriteFile(path, b, 0o644)
}

var witnessCache = map[string][2]string{}

// runWitness executes the witness test of a known finding against the real code (overlay; repository untouched).
func runWitness(repo string, kf *KnownFinding) (bool, string) {
	key := kf.WitnessPkg + "\x00" + kf.WitnessTest
	if r, ok := witnessCache[key]; ok {
		return r[0] == "1", r[1]
	}
	tmp, _ := os.MkdirTemp("", "gocv-witness")
	defer os.RemoveAll(tmp)
	pkgDir := filepath.Join(repo, kf.WitnessPkg)
	src := filepath.Join(tmp, "w_test.go")
	os.WriteFile(src, []byte(kf.WitnessTest), 0o644)
	ov, _ := json.Marshal(map[string]interface{}{"Replace": map[string]string{filepath.Join(pkgDir, "gocv_witness_test.go"): src}})
	ovf := filepath.Join(tmp, "ov.json")
	os.WriteFile(ovf, ov, 0o644)
	var out []byte
	ok := false
	// A witness that does not reproduce is tried once more with a longer limit: a slow build on a loaded machine must
	// not look like "the defect is gone".
	for attempt, limit := 0, "120s"; attempt < 2 && !ok; attempt, limit = attempt+1, "300s" {
		cmd := exec.Command("bash", "-c", fmt.Sprintf("cd %s && go test -overlay %s -vet=off -count=1 -timeout %s -run '^TestGocvWitness$' -v .", pkgDir, ovf, limit))
		cmd.Env = append(os.Environ(), "GOFLAGS=-mod=mod", "GOPROXY=off")
		out, _ = cmd.CombinedOutput()
		ok = strings.Contains(string(out), "WITNESS-REPRODUCED")
		if !ok && strings.Contains(string(out), "\nok  \t") {
			break // the test ran to completion and did not reproduce: no point in repeating
		}
	}
	detail := trunc(string(out), 600)
	v := "0"
	if ok {
		v = "1"
	}
	witnessCache[key] = [2]string{v, detail}
	return ok, detail
}
