package main

// Contract files: comment-only Go files (build tag verif) holding //@ items.

import (
	"bufio"
	"fmt"
	"os"
	"path/filepath"
	"strconv"
	"strings"
)

type Clause struct {
	Kind  string // requires, ensures, invariant, ...
	Text  string
	Expr  Expr
	Label string // e.g. ensures2
	Line  int
	File  string
	Behav string
}

type Guard struct {
	Kind string // call, write, read, sort
	Name string
	Loop int // 0: everywhere; n: only sites inside loop n
	C    *Clause
}

type LoopSpec struct {
	AtBack     []*Clause
	AtExit     []*Clause
	Invariants []*Clause
	Variant    *Clause
}

type Contract struct {
	File         string
	Line         int
	PkgPath      string // import path relative to module root, e.g. "factstore"
	Recv         string // receiver type name without '*', "" for functions
	Name         string
	Params       []string // optional parameter names given in the header
	Mode         Mode
	Pure         bool
	Trusted      bool // contract is assumed (body not verified)
	NoOvf        bool
	Requires     []*Clause
	Ensures      []*Clause
	Modifies     []*Clause
	HasMod       bool
	Loops        map[int]*LoopSpec
	Decr         *Clause
	Unfold       []*Clause
	UnfoldAt     []*Clause
	Uses         []*Clause
	Emits        []*Clause
	Asserts      []*Clause // ghost statements keyed by position marker
	Opts         map[string]string
	Replay       string
	BehavAssumes map[string][]*Clause
	Guards       []*Guard
	ModAll       bool
	ModExcept    []string // with ModAll: components (pkg-local "Type.field") that are NOT modified
	All          []*Clause
}

func (c *Contract) Key() string {
	if c.Recv != "" {
		return c.PkgPath + "." + c.Recv + "." + c.Name
	}
	return c.PkgPath + "." + c.Name
}

type SpecFunc struct {
	PkgPath string
	Name    string
	Params  []QVar
	Ret     *TypeExpr
	Body    Expr // nil: uninterpreted
	Reads   Expr
	Text    string
	File    string
	Line    int
	Rec     bool // body mentions itself: declared uninterpreted + unfolding on demand
}

type Lemma struct {
	PkgPath  string
	Name     string
	Params   []QVar
	Body     Expr
	Induct   []Expr // smaller arguments for which the lemma may be assumed (first param replaced)
	Axiom    bool
	Uses     []Expr
	Unfold   []Expr
	UnfoldAt []Expr
	Decr     Expr
	Auto     bool // axiom included (universally quantified) wherever the spec functions it mentions are used
	Text     string
	File     string
	Line     int
	Mode     Mode
}

type GlobalSpec struct { // assumed value of a package-level variable field
	PkgPath string
	Text    string
	Expr    Expr
}

type GhostDecl struct {
	PkgPath string
	Name    string
	Params  []QVar
	Ret     *TypeExpr
}

type ContractSet struct {
	Ghosts  map[string]*GhostDecl
	Funcs   map[string]*Contract
	Specs   map[string]*SpecFunc // key pkg.Name
	Lemmas  map[string]*Lemma
	Order   []string
	Assumed []string // scan result: trusted/axiom/assume items
}

var clauseKeywords = map[string]bool{
	"requires": true, "ensures": true, "modifies": true, "pure": true, "mode": true, "strings": true,
	"decreases": true, "panics": true, "emits": true, "loop": true, "callinv": true, "unfold": true,
	"behavior": true, "assumes": true, "nooverflow": true, "use": true, "trusted": true, "replay": true,
	"opt": true, "induct": true, "unfoldat": true, "auto": true, "guard": true,
}

var itemKeywords = map[string]bool{"func": true, "spec": true, "lemma": true, "axiom": true, "interface": true, "type": true, "ghost": true}

func loadContracts(repo string, extraDirs ...string) (*ContractSet, error) {
	cs := &ContractSet{Funcs: map[string]*Contract{}, Specs: map[string]*SpecFunc{}, Lemmas: map[string]*Lemma{}, Ghosts: map[string]*GhostDecl{}}
	var files []string
	filepath.Walk(repo, func(p string, info os.FileInfo, err error) error {
		if err != nil {
			return nil
		}
		if info.IsDir() && (info.Name() == ".git" || info.Name() == "rust" || info.Name() == "node_modules") {
			return filepath.SkipDir
		}
		if !info.IsDir() && info.Name() == "contracts_verif.go" {
			files = append(files, p)
		}
		return nil
	})
	for _, f := range files {
		rel, _ := filepath.Rel(repo, filepath.Dir(f))
		if err := cs.loadFile(f, filepath.ToSlash(rel)); err != nil {
			return nil, err
		}
	}
	defer cs.markRecursive()
	for _, d := range extraDirs {
		ms, _ := filepath.Glob(filepath.Join(d, "*.spec"))
		for _, f := range ms {
			// libspec files: package path given by a "//@ package <path>" line
			if err := cs.loadFile(f, ""); err != nil {
				return nil, err
			}
		}
	}
	return cs, nil
}

func (cs *ContractSet) loadFile(path, pkgPath string) error {
	fh, err := os.Open(path)
	if err != nil {
		return err
	}
	defer fh.Close()
	sc := bufio.NewScanner(fh)
	sc.Buffer(make([]byte, 1<<20), 1<<20)
	type rawLine struct {
		text string
		line int
	}
	var lines []rawLine
	ln := 0
	for sc.Scan() {
		ln++
		t := strings.TrimSpace(sc.Text())
		if !strings.HasPrefix(t, "//@") {
			continue
		}
		t = strings.TrimSpace(t[3:])
		if i := strings.Index(t, " -- "); i >= 0 { // trailing remark
			t = strings.TrimSpace(t[:i])
		}
		if t == "" {
			continue
		}
		lines = append(lines, rawLine{t, ln})
	}
	// group into items, clauses
	var curItem []rawLine
	flush := func() error {
		if len(curItem) == 0 {
			return nil
		}
		var cl []rawLine
		for _, l := range curItem {
			w := firstWord(l.text)
			if len(cl) == 0 || clauseKeywords[w] {
				cl = append(cl, l)
			} else {
				cl[len(cl)-1].text += " " + l.text
			}
		}
		err := cs.parseItem(path, pkgPath, cl[0].text, cl[0].line, func() (out []rawClause) {
			for _, c := range cl[1:] {
				out = append(out, rawClause{c.text, c.line})
			}
			return
		}())
		curItem = nil
		return err
	}
	for _, l := range lines {
		w := firstWord(l.text)
		if w == "package" {
			if err := flush(); err != nil {
				return err
			}
			pkgPath = strings.TrimSpace(l.text[len("package"):])
			continue
		}
		if itemKeywords[w] {
			if err := flush(); err != nil {
				return err
			}
		}
		curItem = append(curItem, l)
	}
	return flush()
}

type rawClause struct {
	text string
	line int
}

func firstWord(s string) string {
	for i, c := range s {
		if c == ' ' || c == '(' || c == ':' || c == '\t' {
			return s[:i]
		}
	}
	return s
}

func (cs *ContractSet) parseItem(file, pkgPath, header string, line int, clauses []rawClause) error {
	errf := func(f string, a ...interface{}) error {
		return fmt.Errorf("%s:%d: %s", file, line, fmt.Sprintf(f, a...))
	}
	w := firstWord(header)
	rest := strings.TrimSpace(header[len(w):])
	switch w {
	case "func":
		c := &Contract{File: file, Line: line, PkgPath: pkgPath, Loops: map[int]*LoopSpec{}, Opts: map[string]string{}}
		if strings.HasPrefix(rest, "(") {
			i := strings.Index(rest, ")")
			if i < 0 {
				return errf("bad receiver")
			}
			recv := strings.Fields(rest[1:i])
			if len(recv) == 0 {
				return errf("bad receiver")
			}
			c.Recv = strings.TrimPrefix(recv[len(recv)-1], "*")
			rest = strings.TrimSpace(rest[i+1:])
		}
		name := rest
		if i := strings.Index(rest, "("); i >= 0 {
			name = strings.TrimSpace(rest[:i])
			j := strings.LastIndex(rest, ")")
			if j < i {
				return errf("bad parameter list")
			}
			for _, p := range strings.Split(rest[i+1:j], ",") {
				p = strings.TrimSpace(p)
				if p != "" {
					c.Params = append(c.Params, strings.Fields(p)[0])
				}
			}
			// clauses may follow on the header line
			tail := strings.TrimSpace(rest[j+1:])
			if tail != "" {
				clauses = append([]rawClause{{tail, line}}, clauses...)
			}
		}
		c.Name = name
		counts := map[string]int{}
		behav := ""
		for _, rc := range clauses {
			kw := firstWord(rc.text)
			body := strings.TrimSpace(rc.text[len(kw):])
			cl := &Clause{Kind: kw, Text: body, Line: rc.line, File: file, Behav: behav}
			parse := func() error {
				e, err := parseExpr(body)
				if err != nil {
					return fmt.Errorf("%s:%d: %v", file, rc.line, err)
				}
				cl.Expr = e
				return nil
			}
			switch kw {
			case "requires", "ensures":
				if err := parse(); err != nil {
					return err
				}
				counts[kw]++
				cl.Label = kw + strconv.Itoa(counts[kw])
				if kw == "requires" {
					c.Requires = append(c.Requires, cl)
				} else {
					c.Ensures = append(c.Ensures, cl)
				}
			case "modifies":
				c.HasMod = true
				if strings.HasPrefix(body, "everything except ") {
					// everything may change except the listed components ("Type.field")
					for _, part := range splitTop(strings.TrimPrefix(body, "everything except "), ',') {
						c.ModExcept = append(c.ModExcept, strings.TrimSpace(part))
					}
					c.ModAll = true
				} else if body != "nothing" {
					for _, part := range splitTop(body, ',') {
						e, err := parseExpr(part)
						if err != nil {
							return fmt.Errorf("%s:%d: %v", file, rc.line, err)
						}
						c.Modifies = append(c.Modifies, &Clause{Kind: kw, Text: part, Expr: e, Line: rc.line, File: file})
					}
				}
			case "pure":
				c.Pure = true
				c.HasMod = true
			case "trusted":
				c.Trusted = true
				cs.Assumed = append(cs.Assumed, fmt.Sprintf("trusted contract (body not verified): %s.%s", pkgPath, c.Name))
			case "nooverflow":
				c.NoOvf = true
			case "mode":
				switch body {
				case "bv":
					c.Mode = ModeBV
				case "int":
					c.Mode = ModeInt
				default:
					return errf("bad mode %q", body)
				}
			case "decreases":
				if err := parse(); err != nil {
					return err
				}
				c.Decr = cl
			case "guard":
				// guard call <Name>: e | guard write <global>: e | guard read <global>: e
				fs := strings.Fields(body)
				ci := strings.Index(body, ":")
				if len(fs) < 3 || ci < 0 {
					return errf("bad guard clause %q", body)
				}
				e, err := parseExpr(strings.TrimSpace(body[ci+1:]))
				if err != nil {
					return fmt.Errorf("%s:%d: %v", file, rc.line, err)
				}
				g := &Guard{Kind: fs[0], Name: strings.TrimSuffix(fs[1], ":"), C: &Clause{Kind: kw, Text: body, Expr: e, Line: rc.line, File: file}}
				// optional site restriction: "guard call F in loop 3: e"; "guard return in loop 3: e"
				if len(fs) >= 5 && fs[2] == "in" && fs[3] == "loop" {
					fmt.Sscanf(strings.TrimSuffix(fs[4], ":"), "%d", &g.Loop)
				}
				if fs[0] == "return" && len(fs) >= 4 && fs[1] == "in" && fs[2] == "loop" {
					fmt.Sscanf(strings.TrimSuffix(fs[3], ":"), "%d", &g.Loop)
					g.Name = ""
				}
				c.Guards = append(c.Guards, g)
			case "unfoldat":
				for _, part := range splitTop(body, ',') {
					e, err := parseExpr(part)
					if err != nil {
						return fmt.Errorf("%s:%d: %v", file, rc.line, err)
					}
					c.UnfoldAt = append(c.UnfoldAt, &Clause{Kind: kw, Text: part, Expr: e, Line: rc.line, File: file})
				}
			case "unfold", "use":
				for _, part := range splitTop(body, ',') {
					e, err := parseExpr(part)
					if err != nil {
						return fmt.Errorf("%s:%d: %v", file, rc.line, err)
					}
					x := &Clause{Kind: kw, Text: part, Expr: e, Line: rc.line, File: file}
					if kw == "unfold" {
						c.Unfold = append(c.Unfold, x)
					} else {
						c.Uses = append(c.Uses, x)
					}
				}
			case "loop":
				fs := strings.Fields(body)
				if len(fs) < 3 {
					return errf("bad loop clause %q", body)
				}
				n, err := strconv.Atoi(fs[0])
				if err != nil {
					return errf("bad loop number %q", fs[0])
				}
				ls := c.Loops[n]
				if ls == nil {
					ls = &LoopSpec{}
					c.Loops[n] = ls
				}
				etxt := strings.TrimSpace(body[strings.Index(body, fs[1])+len(fs[1]):])
				e, err := parseExpr(etxt)
				if err != nil {
					return fmt.Errorf("%s:%d: %v", file, rc.line, err)
				}
				x := &Clause{Kind: fs[1], Text: etxt, Expr: e, Line: rc.line, File: file}
				switch fs[1] {
				case "invariant":
					x.Label = fmt.Sprintf("loop%d.inv%d", n, len(ls.Invariants)+1)
					ls.Invariants = append(ls.Invariants, x)
				case "atback":
					// asserted whenever the loop goes round again (not assumed at the head)
					x.Label = fmt.Sprintf("loop%d.back%d", n, len(ls.AtBack)+1)
					ls.AtBack = append(ls.AtBack, x)
				case "atexit":
					// asserted on every edge that leaves the loop (normal exit and break alike)
					x.Label = fmt.Sprintf("loop%d.exit%d", n, len(ls.AtExit)+1)
					ls.AtExit = append(ls.AtExit, x)
				case "variant":
					ls.Variant = x
				default:
					return errf("bad loop clause kind %q", fs[1])
				}
			case "opt":
				fs := strings.Fields(body)
				if len(fs) >= 1 {
					v := "true"
					if len(fs) > 1 {
						v = strings.Join(fs[1:], " ")
					}
					c.Opts[fs[0]] = v
				}
				if len(fs) >= 1 && fs[0] == "nooverflow" {
					c.NoOvf = true
				}
				if len(fs) >= 1 && fs[0] == "assumeensures" {
					cs.Assumed = append(cs.Assumed, fmt.Sprintf("postconditions of %s.%s are assumed, not checked (its loop clauses and guards are checked)", pkgPath, c.Name))
				}
				if len(fs) >= 1 && fs[0] == "elemptr" {
					cs.Assumed = append(cs.Assumed, fmt.Sprintf("in %s.%s the address of an element of a local slice handed to a callee is an opaque pointer: the callee is assumed not to write through it", pkgPath, c.Name))
				}
				if len(fs) >= 1 && fs[0] == "assumeframe" {
					cs.Assumed = append(cs.Assumed, fmt.Sprintf("frame (modifies clause) of %s.%s is assumed, not checked", pkgPath, c.Name))
				}
			case "replay":
				c.Replay = body
			case "behavior":
				behav = strings.TrimSuffix(strings.TrimSpace(body), ":")
			case "assumes":
				if err := parse(); err != nil {
					return err
				}
				if behav == "" {
					return fmt.Errorf("%s:%d: assumes outside a behavior", file, rc.line)
				}
				if c.BehavAssumes == nil {
					c.BehavAssumes = map[string][]*Clause{}
				}
				c.BehavAssumes[behav] = append(c.BehavAssumes[behav], cl)
			case "emits":
				// emits x T :: count(x)   -- the callback is called count(x) times with argument x
				q, err := parseExpr("forall " + body)
				if err != nil {
					return fmt.Errorf("%s:%d: %v", file, rc.line, err)
				}
				cl.Expr = q
				c.Emits = append(c.Emits, cl)
			default:
				return fmt.Errorf("%s:%d: unknown clause %q", file, rc.line, kw)
			}
			c.All = append(c.All, cl)
		}
		if _, dup := cs.Funcs[c.Key()]; dup {
			return errf("duplicate contract for %s", c.Key())
		}
		cs.Funcs[c.Key()] = c
		cs.Order = append(cs.Order, c.Key())
	case "spec":
		// spec func name(a T, b U) R = expr
		rest = strings.TrimSpace(strings.TrimPrefix(rest, "func"))
		for _, rc := range clauses {
			rest += " " + rc.text
		}
		i := strings.Index(rest, "(")
		if i < 0 {
			return errf("bad spec func")
		}
		name := strings.TrimSpace(rest[:i])
		j := matchParen(rest, i)
		if j < 0 {
			return errf("bad spec func params")
		}
		params, err := parseParams(rest[i+1 : j])
		if err != nil {
			return errf("%v", err)
		}
		tail := strings.TrimSpace(rest[j+1:])
		sf := &SpecFunc{PkgPath: pkgPath, Name: name, Params: params, Text: header, File: file, Line: line}
		body := ""
		if k := strings.Index(tail, " = "); k >= 0 {
			body = strings.TrimSpace(tail[k+3:])
			tail = strings.TrimSpace(tail[:k])
		} else if strings.HasPrefix(tail, "= ") {
			body = strings.TrimSpace(tail[2:])
			tail = ""
		}
		if k := strings.Index(tail, " reads "); k >= 0 {
			rd := strings.TrimSpace(tail[k+7:])
			tail = strings.TrimSpace(tail[:k])
			re, err := parseExpr(rd)
			if err != nil {
				return errf("%v", err)
			}
			sf.Reads = re
		}
		if tail == "" {
			return errf("spec func %s needs a result type", name)
		}
		ps := &parser{src: tail}
		ps.toks, err = lex(tail)
		if err != nil {
			return errf("%v", err)
		}
		func() {
			defer func() {
				if r := recover(); r != nil {
					err = fmt.Errorf("%v", r)
				}
			}()
			sf.Ret = ps.typeExpr()
		}()
		if err != nil {
			return errf("spec func %s: %v", name, err)
		}
		if body != "" {
			sf.Body, err = parseExpr(body)
			if err != nil {
				return errf("%v", err)
			}
			sf.Rec = mentionsCall(sf.Body, name)
		}
		cs.Specs[pkgPath+"."+name] = sf
	case "lemma", "axiom":
		// lemma name(a T, b U): expr   |  axiom name: expr
		full := rest
		lm := &Lemma{PkgPath: pkgPath, Axiom: w == "axiom", Text: header, File: file, Line: line}
		for _, rc := range clauses {
			kw := firstWord(rc.text)
			body := strings.TrimSpace(rc.text[len(kw):])
			switch kw {
			case "use", "unfold", "induct", "unfoldat":
				for _, part := range splitTop(body, ',') {
					e, err := parseExpr(part)
					if err != nil {
						return fmt.Errorf("%s:%d: %v", file, rc.line, err)
					}
					switch kw {
					case "unfoldat":
						lm.UnfoldAt = append(lm.UnfoldAt, e)
					case "use":
						lm.Uses = append(lm.Uses, e)
					case "unfold":
						lm.Unfold = append(lm.Unfold, e)
					case "induct":
						lm.Induct = append(lm.Induct, e)
					}
				}
			case "mode":
				if body == "bv" {
					lm.Mode = ModeBV
				}
			case "auto":
				lm.Auto = true
			case "decreases":
				e, err := parseExpr(body)
				if err != nil {
					return fmt.Errorf("%s:%d: %v", file, rc.line, err)
				}
				lm.Decr = e
			default:
				full += " " + rc.text
			}
		}
		var head, body string
		if i := strings.Index(full, "("); i >= 0 && i < strings.Index(full+":", ":") {
			j := matchParen(full, i)
			if j < 0 {
				return errf("bad lemma params")
			}
			head = strings.TrimSpace(full[:i])
			ps, err := parseParams(full[i+1 : j])
			if err != nil {
				return errf("%v", err)
			}
			lm.Params = ps
			body = strings.TrimSpace(full[j+1:])
			body = strings.TrimSpace(strings.TrimPrefix(body, ":"))
		} else {
			k := strings.Index(full, ":")
			if k < 0 {
				return errf("bad lemma")
			}
			head = strings.TrimSpace(full[:k])
			body = strings.TrimSpace(full[k+1:])
		}
		lm.Name = head
		e, err := parseExpr(body)
		if err != nil {
			return errf("%v", err)
		}
		lm.Body = e
		if lm.Axiom {
			cs.Assumed = append(cs.Assumed, fmt.Sprintf("axiom %s.%s: %s", pkgPath, head, body))
		}
		cs.Lemmas[pkgPath+"."+head] = lm
	case "ghost":
		// ghost name(x T) R : a ghost heap component (a map from x to R), read as name(x), modified via "modifies name(x)"
		i := strings.Index(rest, "(")
		if i < 0 {
			return errf("bad ghost declaration")
		}
		j := matchParen(rest, i)
		params, err := parseParams(rest[i+1 : j])
		if err != nil || len(params) != 1 {
			return errf("ghost %s: exactly one parameter expected", rest[:i])
		}
		tail := strings.TrimSpace(rest[j+1:])
		ps := &parser{src: tail}
		ps.toks, err = lex(tail)
		if err != nil {
			return errf("%v", err)
		}
		g := &GhostDecl{PkgPath: pkgPath, Name: strings.TrimSpace(rest[:i]), Params: params}
		func() {
			defer func() {
				if r := recover(); r != nil {
					err = fmt.Errorf("%v", r)
				}
			}()
			g.Ret = ps.typeExpr()
		}()
		if err != nil {
			return errf("ghost %s: %v", g.Name, err)
		}
		cs.Ghosts[pkgPath+"."+g.Name] = g
	default:
		return errf("unsupported item %q", w)
	}
	return nil
}

func parseParams(s string) ([]QVar, error) {
	s = strings.TrimSpace(s)
	if s == "" {
		return nil, nil
	}
	toks, err := lex(s)
	if err != nil {
		return nil, err
	}
	ps := &parser{toks: toks, src: s}
	var out []QVar
	var perr error
	func() {
		defer func() {
			if r := recover(); r != nil {
				perr = fmt.Errorf("%v", r)
			}
		}()
		for {
			var names []string
			names = append(names, ps.identName())
			for ps.isOp(",") {
				ps.next()
				names = append(names, ps.identName())
			}
			ty := ps.typeExpr()
			for _, n := range names {
				out = append(out, QVar{n, ty})
			}
			if ps.isOp(",") {
				ps.next()
				continue
			}
			break
		}
	}()
	return out, perr
}

func matchParen(s string, i int) int {
	d := 0
	for j := i; j < len(s); j++ {
		switch s[j] {
		case '(':
			d++
		case ')':
			d--
			if d == 0 {
				return j
			}
		}
	}
	return -1
}

func splitTop(s string, sep byte) []string {
	var out []string
	d := 0
	last := 0
	for i := 0; i < len(s); i++ {
		switch s[i] {
		case '(', '[', '{':
			d++
		case ')', ']', '}':
			d--
		default:
			if s[i] == sep && d == 0 {
				out = append(out, strings.TrimSpace(s[last:i]))
				last = i + 1
			}
		}
	}
	if strings.TrimSpace(s[last:]) != "" {
		out = append(out, strings.TrimSpace(s[last:]))
	}
	return out
}

func mentionsCall(e Expr, name string) bool {
	found := false
	walkExpr(e, func(x Expr) {
		if c, ok := x.(ECall); ok {
			if id, ok := c.Fn.(EIdent); ok && id.Name == name {
				found = true
			}
		}
	})
	return found
}

// mentionsQualifiedCall: the expression calls pkg.name (pkg: last element of a package path).
func mentionsQualifiedCall(e Expr, pkg, name string) bool {
	found := false
	walkExpr(e, func(x Expr) {
		if c, ok := x.(ECall); ok {
			if sel, ok := c.Fn.(ESel); ok && sel.Name == name {
				if id, ok := sel.X.(EIdent); ok && id.Name == pkg {
					found = true
				}
			}
		}
	})
	return found
}

func walkExpr(e Expr, f func(Expr)) {
	if e == nil {
		return
	}
	f(e)
	switch x := e.(type) {
	case EBin:
		walkExpr(x.L, f)
		walkExpr(x.R, f)
	case EUn:
		walkExpr(x.X, f)
	case ECall:
		walkExpr(x.Fn, f)
		for _, a := range x.Args {
			walkExpr(a, f)
		}
	case ESel:
		walkExpr(x.X, f)
	case EIndex:
		walkExpr(x.X, f)
		walkExpr(x.I, f)
	case ESlice:
		walkExpr(x.X, f)
		walkExpr(x.Lo, f)
		walkExpr(x.Hi, f)
	case EQuant:
		walkExpr(x.Body, f)
	case ECond:
		walkExpr(x.C, f)
		walkExpr(x.A, f)
		walkExpr(x.B, f)
	case EOld:
		walkExpr(x.X, f)
	case EIs:
		walkExpr(x.X, f)
	case EAs:
		walkExpr(x.X, f)
	}
}

// markRecursive marks spec functions on a cycle of the (package-local) call graph as recursive.
func (cs *ContractSet) markRecursive() {
	callees := map[string][]string{}
	for k, sf := range cs.Specs {
		if sf.Body == nil {
			continue
		}
		walkExpr(sf.Body, func(x Expr) {
			if c, ok := x.(ECall); ok {
				if id, ok := c.Fn.(EIdent); ok {
					if _, isSpec := cs.Specs[sf.PkgPath+"."+id.Name]; isSpec {
						callees[k] = append(callees[k], sf.PkgPath+"."+id.Name)
					}
				}
			}
		})
	}
	var reach func(from, target string, seen map[string]bool) bool
	reach = func(from, target string, seen map[string]bool) bool {
		for _, c := range callees[from] {
			if c == target {
				return true
			}
			if !seen[c] {
				seen[c] = true
				if reach(c, target, seen) {
					return true
				}
			}
		}
		return false
	}
	for k, sf := range cs.Specs {
		if reach(k, k, map[string]bool{}) {
			sf.Rec = true
		}
	}
}
