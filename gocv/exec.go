package main

// Symbolic execution of go/ssa (naive form) functions into passive SMT form.

import (
	"fmt"
	"go/ast"
	"go/token"
	"go/types"
	"sort"
	"strings"

	"golang.org/x/tools/go/ssa"
)

// ---- values ---------------------------------------------------------------

type Value interface{}

// Term: an SMT term denoting a Go value of type T.
type Term struct {
	S   string
	T   types.Type
	Org *Location // where an aggregate was loaded from (for in-place element updates)
}

// Ptr: meta-level pointer to a location (cell, heap field, global), never merged.
type Ptr struct {
	Loc Location
}

type Closure struct {
	Fn    *ssa.Function
	Binds []Value
}

type FnRef struct{ Fn *ssa.Function }

// MergedFn: one of several function values (they met at a control-flow join).
type MergedFn struct{ Alts []Value }

type Tuple struct{ Vs []Value }

type Root interface{}

type CellRoot struct{ A *ssa.Alloc }
type HeapRoot struct {
	Comp string // heap component
	Ref  string // Int term
}
type GlobalRoot struct{ G *ssa.Global }
type ValueRoot struct{ V Term } // read-only detached aggregate
// FreeRoot: a captured variable of a function literal that is verified on its own (its value at the time of the call is
// arbitrary; what the literal writes to it is visible to later reads inside the literal only)
type FreeRoot struct{ FV *ssa.FreeVar }

type PathElem struct {
	Field int        // >=0: struct field index
	Index string     // element index term when Field < 0
	CT    types.Type // container type
}

type Location struct {
	Root Root
	Path []PathElem
	T    types.Type // type of the located value
	RT   types.Type // type of the root value
}

func (l Location) extend(pe PathElem, t types.Type) Location {
	np := make([]PathElem, len(l.Path)+1)
	copy(np, l.Path)
	np[len(l.Path)] = pe
	return Location{Root: l.Root, Path: np, T: t, RT: l.RT}
}

// ---- state ------------------------------------------------------------------

type State struct {
	pc    string
	cells map[*ssa.Alloc]Value
	heap  map[string]string
	ghost map[string]string
	dead  bool
	free  map[*ssa.FreeVar]Value // captured variables (function literals verified as units)
	// epoch: set when the whole heap was havocked (a callee without a frame, a loop that may write anything).
	// Components that are first read afterwards get a symbol of that epoch, not their initial value.
	epoch string
}

func (s *State) clone() *State {
	n := &State{pc: s.pc, epoch: s.epoch, cells: make(map[*ssa.Alloc]Value, len(s.cells)), heap: make(map[string]string, len(s.heap)), ghost: make(map[string]string, len(s.ghost))}
	for k, v := range s.cells {
		n.cells[k] = v
	}
	for k, v := range s.heap {
		n.heap[k] = v
	}
	for k, v := range s.ghost {
		n.ghost[k] = v
	}
	if s.free != nil {
		n.free = make(map[*ssa.FreeVar]Value, len(s.free))
		for k, v := range s.free {
			n.free[k] = v
		}
	}
	return n
}

// ---- executor -----------------------------------------------------------------

type Exec struct {
	scanOwn           *loopInfo // during the effect scan of a callee: its blocks (maps made there are its own)
	vc                *VC
	prog              *Program
	top               *Frame
	inlining          []*ssa.Function
	lockSeq           int
	safety            bool // generate safety obligations for the top frame
	allowEscapingElemPtr bool // opt elemptr: &s[i] of a local slice may be passed on as an opaque pointer
	probing           int
	provingLemma      *Lemma
	fuel, unfoldDepth int
	fuelOverride      int
	autoDone          map[string]bool
	unfolded          map[string]bool
	interpretNL       bool
	pureExpanding     map[string]int
}

type Frame struct {
	fn           *ssa.Function
	vals         map[ssa.Value]Value
	top          bool
	contract     *Contract
	entry        *State         // state at function entry (for old())
	prevSt       *State         // state at the head of the loop iteration being closed (for prev() in atback clauses)
	headSts      map[int]*State // loop number -> state at the head of its current iteration (for at(N, e))
	params       map[string]Value
	rets         []retInfo
	loops        map[*ssa.BasicBlock]*loopInfo
	depth        int
	oblCount     map[string]int
	ex           *Exec
	defers       []*ssa.Defer
	retIdx       int
	specEnvExtra map[string]Value
	synthLocals  map[string]*ssa.Alloc // names made up by the verifier for specific locals (synthesised clauses)
	extraModel   []ModelVar
	loopSeen     map[int]mapIter
	escaped      map[*ssa.Alloc]bool
	pcells       map[string]*ssa.Alloc
	curLoop      int
	atHead       *loopInfo // set while clauses are evaluated at the head / on a back edge of this loop
}

type retInfo struct {
	st   *State
	vals []Value
	pos  token.Pos
}

type loopInfo struct {
	header           *ssa.BasicBlock
	blocks           map[*ssa.BasicBlock]bool
	number           int
	spec             *LoopSpec
	variant          string // value at head
	headSt           *State
	lexStart, lexEnd token.Pos
	hdr              string // printed loop header
	riOrdinal        int    // k of "rangeindex#k" after re-anchoring (0: not re-anchored)
	reanchored       bool
	autoInvDone      bool
	stmt             ast.Node // *ast.ForStmt or *ast.RangeStmt
}

func (ex *Exec) assume(st *State, cond string) {
	if cond == "true" {
		return
	}
	st.pc = ex.vc.define("pc", "Bool", sAnd(st.pc, cond))
}

func (fr *Frame) fnName() string { return funcKey(fr.fn) }

func (ex *Exec) oblige(fr *Frame, st *State, kind, goal, text string, pos token.Pos) {
	if goal == "true" {
		// still count it as a (trivially) discharged obligation? skip: avoids inflating numbers
		return
	}
	top := ex.top
	top.oblCount[kind]++
	name := fmt.Sprintf("%s#%s%d", funcKey(top.fn), kind, top.oblCount[kind])
	o := &Obligation{Name: name, Kind: kind, PC: st.pc, Goal: goal, Text: text, Fn: funcKey(top.fn)}
	if pos.IsValid() {
		o.Pos = ex.prog.fset.Position(pos)
	}
	o.Inputs = top.modelVars()
	ex.vc.oblige(o)
}

func (ex *Exec) obligeNamed(st *State, name, kind, goal, text string, pos token.Pos) *Obligation {
	o := &Obligation{Name: name, Kind: kind, PC: st.pc, Goal: goal, Text: text, Fn: funcKey(ex.top.fn)}
	if pos.IsValid() {
		o.Pos = ex.prog.fset.Position(pos)
	}
	o.Inputs = ex.top.modelVars()
	ex.vc.oblige(o)
	return o
}

func (fr *Frame) modelVars() []ModelVar {
	var out []ModelVar
	var names []string
	for n := range fr.params {
		names = append(names, n)
	}
	sort.Strings(names)
	for _, n := range names {
		if t, ok := fr.params[n].(Term); ok {
			out = append(out, ModelVar{Name: n, Term: t.S, Type: t.T})
		}
	}
	out = append(out, fr.extraModel...)
	return out
}

// addPointeeModel records, for a pointer parameter, the entry values of the fields of its pointee so that a
// counterexample can be rebuilt as a Go value (one level deep).
func (ex *Exec) addPointeeModel(fr *Frame, st *State, name string, ref string, pt types.Type) {
	et := pt.Underlying().(*types.Pointer).Elem()
	s, ok := et.Underlying().(*types.Struct)
	if !ok {
		return
	}
	for i := 0; i < s.NumFields(); i++ {
		comp, ft := ex.heapCompName(et, i)
		h := ex.heapGet(st, comp, ft)
		fr.extraModel = append(fr.extraModel, ModelVar{Name: name + "." + s.Field(i).Name(), Term: sx("select", h, ref), Type: ft})
	}
}

// ---- heap -------------------------------------------------------------------------

func (ex *Exec) heapCompName(structT types.Type, field int) (string, types.Type) {
	st := structT.Underlying().(*types.Struct)
	name := ""
	if n, ok := types.Unalias(structT).(*types.Named); ok {
		name = relPkgPath(n.Obj().Pkg()) + "." + n.Obj().Name()
	} else {
		name = ex.vc.tc.structName(structT)
	}
	return name + "." + st.Field(field).Name(), st.Field(field).Type()
}

func (ex *Exec) heapGet(st *State, comp string, elemT types.Type) string {
	if t, ok := st.heap[comp]; ok {
		return t
	}
	es := ex.vc.tc.sortOf(elemT)
	ex.vc.heapT[comp] = heapComp{sort: es, typ: elemT, isArr: true}
	n := "H0_" + mangle(comp)
	ex.vc.declareConst(n, sx("Array", "Int", es))
	if st.epoch != "" {
		n = ex.initialCompIn(st, comp)
	}
	st.heap[comp] = n
	return n
}

func (ex *Exec) globalGet(st *State, g *ssa.Global) string {
	comp := "G:" + relPkgPath(g.Pkg.Pkg) + "." + g.Name()
	if t, ok := st.heap[comp]; ok {
		return t
	}
	if ex.prog.globalByComp == nil {
		ex.prog.globalByComp = map[string]*ssa.Global{}
	}
	ex.prog.globalByComp[comp] = g
	et := g.Type().(*types.Pointer).Elem()
	es := ex.vc.tc.sortOf(et)
	ex.vc.heapT[comp] = heapComp{sort: es, typ: et}
	n := "G0_" + mangle(relPkgPath(g.Pkg.Pkg)+"."+g.Name())
	ex.vc.declareConst(n, es)
	if st.epoch != "" && ex.prog.mutableGlobals[g] {
		n = ex.initialCompIn(st, comp)
	}
	st.heap[comp] = n
	ex.globalFacts(st, g, n, et)
	return n
}

// ---- loads and stores through locations ----------------------------------------------

func (ex *Exec) rootLoad(st *State, l Location) Value {
	switch r := l.Root.(type) {
	case CellRoot:
		v, ok := st.cells[r.A]
		if !ok {
			// cell never initialised on this path (allocated in a different branch): zero value
			v = ex.zeroValue(r.A.Type().(*types.Pointer).Elem())
			st.cells[r.A] = v
		}
		return v
	case HeapRoot:
		h := ex.heapGet(st, r.Comp, l.RT)
		return Term{S: sx("select", h, r.Ref), T: l.RT}
	case GlobalRoot:
		return Term{S: ex.globalGet(st, r.G), T: l.RT}
	case ValueRoot:
		return r.V
	case FreeRoot:
		if v, ok := st.free[r.FV]; ok {
			return v
		}
		panic(unsupported("captured variable " + r.FV.Name() + " has no value on this path"))
	}
	panic(unsupported(fmt.Sprintf("load root %T", l.Root)))
}

func (ex *Exec) rootStore(st *State, l Location, v Value) {
	switch r := l.Root.(type) {
	case CellRoot:
		st.cells[r.A] = v
	case HeapRoot:
		h := ex.heapGet(st, r.Comp, l.RT)
		t := ex.asTerm(v, l.RT)
		st.heap[r.Comp] = ex.vc.define("H_"+r.Comp, sx("Array", "Int", ex.vc.tc.sortOf(l.RT)), sx("store", h, r.Ref, t.S))
	case GlobalRoot:
		comp := "G:" + relPkgPath(r.G.Pkg.Pkg) + "." + r.G.Name()
		ex.globalGet(st, r.G)
		st.heap[comp] = ex.asTerm(v, l.RT).S
	case FreeRoot:
		if st.free == nil {
			st.free = map[*ssa.FreeVar]Value{}
		}
		st.free[r.FV] = v
	default:
		panic(unsupported("store through a detached slice element (aliasing not modelled)"))
	}
}

func (ex *Exec) zeroValue(t types.Type) Value {
	return Term{S: ex.vc.tc.zero(t), T: t}
}

func (ex *Exec) asTerm(v Value, t types.Type) Term {
	switch x := v.(type) {
	case Term:
		return x
	case Ptr:
		if cr, ok := x.Loc.Root.(CellRoot); ok && len(x.Loc.Path) > 0 && ex.allowEscapingElemPtr {
			// &s[i] of a local slice value handed on as a value: an opaque pointer (nothing is known about what it
			// points to; writes through it by the receiver are not reflected in the local - noted as an assumption)
			ex.vc.note("address of an element of local %s escapes as a value: opaque pointer, writes through it are not tracked", cr.A.Comment)
			return Term{S: ex.vc.fresh("elemptr", ex.vc.tc.sortOf(t)), T: t}
		}
		panic(unsupported("pointer to a local used as a first-class value (" + t.String() + ", " + fmt.Sprint(x.Loc.Root) + ")"))
	case Closure, FnRef, MergedFn:
		// function values are opaque when stored
		return Term{S: ex.vc.fresh("fnval", "Int"), T: t}
	case nil:
		return Term{S: ex.vc.tc.zero(t), T: t}
	}
	panic(unsupported(fmt.Sprintf("value %T as term", v)))
}

func (ex *Exec) selectPath(v Term, path []PathElem) Term {
	cur := v
	for _, pe := range path {
		if pe.Field >= 0 {
			si := ex.vc.tc.structInfoOf(cur.T)
			f := si.fields[pe.Field]
			cur = Term{S: sx(f.sel, cur.S), T: f.typ}
		} else {
			switch u := cur.T.Underlying().(type) {
			case *types.Slice:
				so := ex.vc.tc.sortOf(cur.T)
				cur = Term{S: sx("select", sx("arr_"+so, cur.S), pe.Index), T: u.Elem()}
			case *types.Array:
				cur = Term{S: sx("select", cur.S, pe.Index), T: u.Elem()}
			default:
				panic(unsupported("index into " + cur.T.String()))
			}
		}
	}
	return cur
}

func (ex *Exec) updatePath(v Term, path []PathElem, nv Term) Term {
	if len(path) == 0 {
		return Term{S: nv.S, T: v.T}
	}
	pe := path[0]
	if pe.Field >= 0 {
		si := ex.vc.tc.structInfoOf(v.T)
		base := ex.vc.define("sv", si.sort, v.S)
		var args []string
		for i, f := range si.fields {
			if i == pe.Field {
				inner := ex.updatePath(Term{S: sx(f.sel, base), T: f.typ}, path[1:], nv)
				args = append(args, inner.S)
			} else {
				args = append(args, sx(f.sel, base))
			}
		}
		return Term{S: ex.vc.define("su", si.sort, sx(si.ctor, args...)), T: v.T}
	}
	switch u := v.T.Underlying().(type) {
	case *types.Slice:
		so := ex.vc.tc.sortOf(v.T)
		base := ex.vc.define("lv", so, v.S)
		arr := sx("arr_"+so, base)
		inner := ex.updatePath(Term{S: sx("select", arr, pe.Index), T: u.Elem()}, path[1:], nv)
		return Term{S: ex.vc.define("lu", so, sx("mk_"+so, sx("store", arr, pe.Index, inner.S), sx("len_"+so, base))), T: v.T}
	case *types.Array:
		inner := ex.updatePath(Term{S: sx("select", v.S, pe.Index), T: u.Elem()}, path[1:], nv)
		return Term{S: ex.vc.define("au", ex.vc.tc.sortOf(v.T), sx("store", v.S, pe.Index, inner.S)), T: v.T}
	}
	panic(unsupported("update into " + v.T.String()))
}

func (ex *Exec) load(st *State, l Location) Value {
	rv := ex.rootLoad(st, l)
	if len(l.Path) == 0 {
		if t, ok := rv.(Term); ok {
			lc := l
			t.Org = &lc
			return t
		}
		return rv
	}
	rt, ok := rv.(Term)
	if !ok {
		panic(unsupported("path through non-term cell"))
	}
	t := ex.selectPath(rt, l.Path)
	lc := l
	t.Org = &lc
	return t
}

func (ex *Exec) store(st *State, l Location, v Value) {
	if len(l.Path) == 0 {
		if t, ok := v.(Term); ok {
			t.Org = nil
			v = t
		}
		ex.rootStore(st, l, v)
		return
	}
	rv := ex.rootLoad(st, l)
	rt, ok := rv.(Term)
	if !ok {
		panic(unsupported("path store through non-term cell"))
	}
	nv := ex.updatePath(rt, l.Path, ex.asTerm(v, l.T))
	ex.rootStore(st, Location{Root: l.Root, T: l.RT, RT: l.RT}, nv)
}

// whole-struct load/store through a heap reference.
func (ex *Exec) loadStructAt(st *State, ref string, t types.Type) Term {
	si := ex.vc.tc.structInfoOf(t)
	var args []string
	for i := range si.fields {
		comp, ft := ex.heapCompName(t, i)
		args = append(args, sx("select", ex.heapGet(st, comp, ft), ref))
	}
	if len(args) == 0 {
		return Term{S: si.ctor, T: t}
	}
	return Term{S: sx(si.ctor, args...), T: t}
}

func (ex *Exec) storeStructAt(st *State, ref string, t types.Type, v Term) {
	si := ex.vc.tc.structInfoOf(t)
	base := ex.vc.define("sv", si.sort, v.S)
	for i, f := range si.fields {
		comp, ft := ex.heapCompName(t, i)
		h := ex.heapGet(st, comp, ft)
		st.heap[comp] = ex.vc.define("H_"+comp, sx("Array", "Int", f.sort), sx("store", h, ref, sx(f.sel, base)))
	}
}

// ---- type facts -------------------------------------------------------------------------

// rangeFact returns the assumption that term t (of Go type T) is a valid machine value.
func (ex *Exec) rangeFact(t string, T types.Type, depth int) string {
	tc := ex.vc.tc
	switch u := T.Underlying().(type) {
	case *types.Basic:
		if w, signed, ok := intWidth(u); ok && !tc.isBV(T) {
			lo, hi := intRange(w, signed)
			return sAnd(sx("<=", lo, t), sx("<=", t, hi))
		}
		if isStringType(T) {
			return "true"
		}
	case *types.Struct:
		if depth > 3 {
			return "true"
		}
		si := tc.structInfoOf(T)
		var cs []string
		for _, f := range si.fields {
			cs = append(cs, ex.rangeFact(sx(f.sel, t), f.typ, depth+1))
		}
		return sAnd(cs...)
	case *types.Slice:
		so := tc.sortOf(T)
		l := sx("len_"+so, t)
		c := sAnd(sx("<=", "0", l), sx("<=", l, "4611686018427387904"))
		// element facts
		if depth <= 2 {
			ef := ex.rangeFact(sx("select", sx("arr_"+so, t), "qi!"), u.Elem(), depth+1)
			if ef != "true" {
				c = sAnd(c, fmt.Sprintf("(forall ((qi! %s)) %s)", tc.idxSort(), ef))
			}
		}
		return c
	case *types.Pointer, *types.Map:
		return sx("<=", "0", t)
	}
	return "true"
}

func intRange(w int, signed bool) (string, string) {
	if signed {
		switch w {
		case 8:
			return "(- 128)", "127"
		case 16:
			return "(- 32768)", "32767"
		case 32:
			return "(- 2147483648)", "2147483647"
		}
		return "(- 9223372036854775808)", "9223372036854775807"
	}
	switch w {
	case 8:
		return "0", "255"
	case 16:
		return "0", "65535"
	case 32:
		return "0", "4294967295"
	}
	return "0", "18446744073709551615"
}

// havocValue returns a fresh value of type T with its machine-range facts assumed.
func (ex *Exec) havocValue(st *State, prefix string, T types.Type) Term {
	s := ex.vc.tc.sortOf(T)
	n := ex.vc.fresh(prefix, s)
	ex.assume(st, ex.rangeFact(n, T, 0))
	if st != nil {
		ex.typeFacts(st, n, T)
	}
	return Term{S: n, T: T}
}

// typeFacts: extra assumptions for interface-typed values (dynamic type among implementers).
func (ex *Exec) typeFacts(st *State, t string, T types.Type) {
	if isInterface(T) {
		if f := ex.ifaceFact(t, T); f != "true" {
			ex.assume(st, f)
		}
		// a pointer held in an interface value refers to an allocated object (like any loaded pointer)
		if it, ok := T.Underlying().(*types.Interface); ok && it.NumMethods() > 0 {
			if n, isNamed := types.Unalias(T).(*types.Named); !isNamed || n.Obj().Pkg() != nil {
				impls := ex.prog.implementers(T)
				if len(impls) > 0 && len(impls) <= 16 {
					al := ex.allocSet(st)
					for _, c := range impls {
						if _, isPtr := c.Underlying().(*types.Pointer); isPtr {
							ctor := ex.vc.tc.dynCtor(c)
							ex.assume(st, sImp(sx("(_ is "+ctor+")", t), sx("select", al, sx("un"+ctor, t))))
						}
					}
				}
			}
		}
	}
}

func (ex *Exec) ifaceFact(t string, T types.Type) string {
	it, ok := T.Underlying().(*types.Interface)
	if !ok || it.NumMethods() == 0 {
		return "true"
	}
	if n, ok := types.Unalias(T).(*types.Named); ok && n.Obj().Pkg() == nil {
		return "true" // error
	}
	impls := ex.prog.implementers(T)
	if len(impls) == 0 || len(impls) > 16 {
		return "true"
	}
	var ds []string
	ds = append(ds, sx("=", t, "Dyn_nil"))
	for _, c := range impls {
		ds = append(ds, sx("(_ is "+ex.vc.tc.dynCtor(c)+")", t))
	}
	return sOr(ds...)
}

func (p *Program) implementers(T types.Type) []types.Type {
	key := T.String()
	if r, ok := p.implCache[key]; ok {
		return r
	}
	it := T.Underlying().(*types.Interface)
	var out []types.Type
	var pkgs []string
	for k := range p.typesPkgs {
		pkgs = append(pkgs, k)
	}
	sort.Strings(pkgs)
	for _, k := range pkgs {
		tp := p.typesPkgs[k]
		if !strings.HasPrefix(tp.Path(), modPrefix) {
			continue
		}
		sc := tp.Scope()
		for _, n := range sc.Names() {
			tn, ok := sc.Lookup(n).(*types.TypeName)
			if !ok || tn.IsAlias() {
				continue
			}
			nt := tn.Type()
			if isInterface(nt) {
				continue
			}
			if named, ok := nt.(*types.Named); ok && named.TypeParams().Len() > 0 {
				continue
			}
			if types.Implements(nt, it) {
				out = append(out, nt)
			} else if pt := types.NewPointer(nt); types.Implements(pt, it) {
				out = append(out, pt)
			}
		}
	}
	p.implCache[key] = out
	return out
}
