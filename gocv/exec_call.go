package main

// Calls: builtins, contracts, inlining, havoc; defers; globals.

import (
	"fmt"
	"go/token"
	"go/types"
	"strconv"
	"strings"

	"golang.org/x/tools/go/ssa"
)

func (p *Program) contractFor(fn *ssa.Function) *Contract {
	if fn == nil {
		return nil
	}
	if o := fn.Origin(); o != nil {
		fn = o
	}
	return p.cs.Funcs[funcKey(fn)]
}

func (p *Program) ifaceContract(c *ssa.CallCommon) *Contract {
	if !c.IsInvoke() {
		return nil
	}
	rt := c.Value.Type()
	n, ok := types.Unalias(rt).(*types.Named)
	if !ok {
		return nil
	}
	key := relPkgPath(n.Obj().Pkg()) + "." + n.Obj().Name() + "." + c.Method.Name()
	if n.Obj().Pkg() == nil {
		key = "." + n.Obj().Name() + "." + c.Method.Name()
	}
	if ct := p.cs.Funcs[key]; ct != nil {
		return ct
	}
	// the method may be declared by an embedded interface that has the contract
	if n.Obj().Pkg() != nil {
		sc := n.Obj().Pkg().Scope()
		for _, name := range sc.Names() {
			tn, ok := sc.Lookup(name).(*types.TypeName)
			if !ok {
				continue
			}
			it, ok := tn.Type().Underlying().(*types.Interface)
			if !ok || !types.Implements(rt, it) {
				continue
			}
			if ct := p.cs.Funcs[relPkgPath(n.Obj().Pkg())+"."+name+"."+c.Method.Name()]; ct != nil {
				return ct
			}
		}
	}
	return nil
}

func (p *Program) inModule(fn *ssa.Function) bool {
	var pk *types.Package
	if fn.Pkg != nil {
		pk = fn.Pkg.Pkg
	} else if fn.Object() != nil {
		pk = fn.Object().Pkg()
	} else if fn.Parent() != nil {
		return p.inModule(fn.Parent())
	}
	return pk != nil && strings.HasPrefix(pk.Path(), modPrefix)
}

func (p *Program) typesPkgByRel(rel string) *types.Package {
	if pk, ok := p.typesPkgs[modPrefix+rel]; ok {
		return pk
	}
	return p.typesPkgs[rel]
}

func (p *Program) isLoopFree(fn *ssa.Function) bool {
	if v, ok := p.loopFree[fn]; ok {
		return v
	}
	lf := true
	for _, b := range fn.Blocks {
		for _, s := range b.Succs {
			if isBackEdge(b, s) {
				lf = false
			}
		}
	}
	p.loopFree[fn] = lf
	return lf
}

func (p *Program) isRecursive(fn *ssa.Function) bool {
	for _, b := range fn.Blocks {
		for _, in := range b.Instrs {
			if c, ok := in.(ssa.CallInstruction); ok {
				if c.Common().StaticCallee() == fn {
					return true
				}
			}
		}
	}
	return false
}

// returnGuards: "guard return in loop N: e" - every return statement located inside loop N satisfies e
// (results bound as in postconditions). Used for "an early exit reports an error".
func (ex *Exec) returnGuards(fr *Frame, st *State, blk *ssa.BasicBlock, vals []Value, pos token.Pos) {
	for _, g := range fr.contract.Guards {
		if g.Kind != "return" {
			continue
		}
		if g.Loop > 0 {
			in := false
			for _, li := range fr.loops {
				if li.number == g.Loop && (li.blocks[blk] || (li.lexStart.IsValid() && pos.IsValid() && li.lexStart <= pos && pos < li.lexEnd)) {
					in = true
				}
			}
			if !in {
				continue
			}
		}
		extra := map[string]Value{}
		env0 := &SpecEnv{vars: extra}
		var res Value
		switch len(vals) {
		case 0:
			res = Tuple{}
		case 1:
			res = vals[0]
		default:
			res = Tuple{vals}
		}
		bindResults(env0, fr.fn.Signature, res)
		save := fr.specEnvExtra
		fr.specEnvExtra = extra
		goal := ex.specBool(fr, st, g.C)
		fr.specEnvExtra = save
		ex.top.oblCount["guard:return"]++
		ex.top.oblCount[fmt.Sprintf("guardhit:%p", g)]++
		ex.obligeNamed(st, fmt.Sprintf("%s#guard(return in loop %d)%d", funcKey(ex.top.fn), g.Loop, ex.top.oblCount["guard:return"]), "guard", goal, "every return inside loop "+fmt.Sprint(g.Loop)+": "+g.C.Text, pos)
	}
}

// checkGuards: contract-level guards "guard call|write|read <name>: e" become obligations at the matching sites.
func (ex *Exec) checkGuards(fr *Frame, st *State, kind, name string, pos token.Pos) {
	ex.checkGuardsAt(fr, st, kind, name, pos, nil, nil)
}

func (ex *Exec) checkGuardsAt(fr *Frame, st *State, kind, name string, pos token.Pos, blk *ssa.BasicBlock, args []Value) {
	if !fr.top || fr.contract == nil {
		return
	}
	for _, g := range fr.contract.Guards {
		if g.Kind != kind || g.Name != name {
			continue
		}
		if g.Loop > 0 {
			in := false
			for _, li := range fr.loops {
				if li.number == g.Loop && blk != nil && (li.blocks[blk] || (li.lexStart.IsValid() && pos.IsValid() && li.lexStart <= pos && pos < li.lexEnd)) {
					in = true
				}
			}
			if !in {
				continue
			}
		}
		for i, a := range args {
			fr.specEnvExtra[fmt.Sprintf("arg%d", i)] = a
		}
		goal := ex.specBool(fr, st, g.C)
		for i := range args {
			delete(fr.specEnvExtra, fmt.Sprintf("arg%d", i))
		}
		ex.top.oblCount["guard:"+kind+name]++
		ex.top.oblCount[fmt.Sprintf("guardhit:%p", g)]++
		ex.obligeNamed(st, fmt.Sprintf("%s#guard(%s %s)%d", funcKey(ex.top.fn), kind, name, ex.top.oblCount["guard:"+kind+name]), "guard", goal, "guard at every "+kind+" of "+name+": "+g.C.Text, pos)
	}
}

func (ex *Exec) call(fr *Frame, st *State, c *ssa.CallCommon, instr ssa.Instruction) Value {
	pos := instr.Pos()
	if fr.top && fr.contract != nil && len(fr.contract.Guards) > 0 {
		var gargs []Value
		for _, a := range c.Args {
			gargs = append(gargs, ex.operand(fr, st, a))
		}
		if c.IsInvoke() {
			// the interface value the method is invoked on is available to guards as 'recv'
			fr.specEnvExtra["recv"] = ex.operand(fr, st, c.Value)
			ex.checkGuardsAt(fr, st, "call", c.Method.Name(), pos, instr.Block(), gargs)
			delete(fr.specEnvExtra, "recv")
		} else if sc := c.StaticCallee(); sc != nil {
			if sc.Signature.Recv() != nil && len(gargs) > 0 {
				fr.specEnvExtra["recv"] = gargs[0]
			}
			ex.checkGuardsAt(fr, st, "call", sc.Name(), pos, instr.Block(), gargs)
			delete(fr.specEnvExtra, "recv")
		}
	}
	if b, ok := c.Value.(*ssa.Builtin); ok {
		return ex.builtin(fr, st, b, c, pos)
	}
	var args []Value
	for _, a := range c.Args {
		args = append(args, ex.operand(fr, st, a))
	}
	if c.IsInvoke() {
		recv := ex.operand(fr, st, c.Value)
		if ct := ex.prog.ifaceContract(c); ct != nil {
			ex.havocClosureArgs(fr, st, c)
			return ex.applyContract(fr, st, nil, ct, append([]Value{recv}, args...), c, pos)
		}
		if sp := ex.ifaceSpecial(fr, st, c, recv, args); sp != nil {
			return sp
		}
		ex.vc.note("uncontracted-callee: interface method %s.%s (result and heap havocked)", c.Value.Type(), c.Method.Name())
		ms := newModSet()
		ms.allHeap = true
		ex.havocModSet(fr, st, ms, ex.vc.name("inv"))
		return ex.havocResults(st, c.Signature().Results(), c.Method.Name())
	}
	callee := c.StaticCallee()
	if callee == nil {
		fv := ex.operand(fr, st, c.Value)
		switch f := fv.(type) {
		case Closure:
			return ex.inlineClosure(fr, st, f, args)
		case FnRef:
			callee = f.Fn
		case MergedFn:
			// any of the alternatives may run: havoc every captured local and the heap, result arbitrary
			ms := newModSet()
			ms.allHeap = true
			for _, a := range f.Alts {
				if cl, ok := a.(Closure); ok {
					for _, b := range cl.Binds {
						if p, ok := b.(Ptr); ok {
							if cr, ok := p.Loc.Root.(CellRoot); ok {
								ms.cells[cr.A] = true
							}
						}
					}
				}
			}
			ex.havocClosureArgs(fr, st, c)
			ex.havocModSet(fr, st, ms, ex.vc.name("mfn"))
			ex.vc.note("call through a function value with several possible targets in %s: effects havocked", funcKey(fr.fn))
			return ex.havocResults(st, c.Signature().Results(), "mfn")
		default:
			return ex.callbackCall(fr, st, c, fv, args, pos)
		}
	}
	if mc, ok := c.Value.(*ssa.MakeClosure); ok {
		_ = mc
		fv := ex.operand(fr, st, c.Value)
		if f, ok := fv.(Closure); ok {
			return ex.inlineClosure(fr, st, f, args)
		}
	}
	if sp, ok := ex.specialCall(fr, st, callee, args, c, pos); ok {
		return sp
	}
	if ct := ex.prog.contractFor(callee); ct != nil && ct.Opts["inline"] == "" {
		ex.havocClosureArgs(fr, st, c)
		return ex.applyContract(fr, st, callee, ct, args, c, pos)
	}
	if ex.prog.inModule(callee) && len(callee.Blocks) > 0 && ex.prog.isLoopFree(callee) && fr.depth < 4 && !ex.onStack(callee) {
		return ex.inlineCallAt(fr, st, callee, args, nil)
	}
	if ex.prog.inModule(callee) && len(callee.Blocks) > 0 && fr.depth < 4 && !ex.onStack(callee) && isNewFunction(callee) {
		ex.vc.note("new helper %s has no contract yet: inlined", callee.String())
		return ex.inlineCallAt(fr, st, callee, args, nil)
	}
	// unknown callee
	ex.havocClosureArgs(fr, st, c)
	ex.vc.note("uncontracted-callee: %s (result havocked%s)", callee.String(), map[bool]string{true: ", heap havocked", false: ""}[ex.prog.inModule(callee)])
	ms := newModSet()
	for _, a := range c.Args {
		if al, ok := a.(*ssa.Alloc); ok && !ex.isHeapAlloc(al) {
			ms.cells[al] = true
		}
	}
	if ex.prog.inModule(callee) {
		ms.allHeap = true
	}
	ex.havocModSet(fr, st, ms, ex.vc.name("call"))
	return ex.havocResults(st, callee.Signature.Results(), callee.Name())
}

func (ex *Exec) onStack(fn *ssa.Function) bool {
	for _, f := range ex.inlining {
		if f == fn {
			return true
		}
	}
	return ex.top != nil && ex.top.fn == fn
}

func (ex *Exec) havocResults(st *State, res *types.Tuple, hint string) Value {
	switch res.Len() {
	case 0:
		return Tuple{}
	case 1:
		return ex.havocValue(st, "r_"+hint, res.At(0).Type())
	}
	var vs []Value
	for i := 0; i < res.Len(); i++ {
		vs = append(vs, ex.havocValue(st, fmt.Sprintf("r%d_%s", i, hint), res.At(i).Type()))
	}
	return Tuple{vs}
}

// havocClosureArgs: a function literal handed to a callee that is not inlined may run there any number of
// times: everything it can write (captured variables, heap) is havocked.
func (ex *Exec) havocClosureArgs(fr *Frame, st *State, c *ssa.CallCommon) {
	if len(fr.escaped) > 0 {
		ms := newModSet()
		for a := range fr.escaped {
			ms.cells[a] = true
		}
		ex.havocModSet(fr, st, ms, ex.vc.name("esc"))
	}
	for _, a := range c.Args {
		mc, ok := a.(*ssa.MakeClosure)
		if !ok {
			continue
		}
		ms := newModSet()
		ex.closureEffects(mc, ms, nil, 0)
		ex.havocModSet(fr, st, ms, ex.vc.name("clo"))
	}
}

// callbackCall: call of an opaque function value (parameter). Effect-free by assumption; result arbitrary.
func (ex *Exec) callbackCall(fr *Frame, st *State, c *ssa.CallCommon, fv Value, args []Value, pos token.Pos) Value {
	ex.vc.note("callback parameters are assumed not to write the callee's footprint (%s)", funcKey(fr.fn))
	// record emission in ghost multiset when the function declares emits
	if fr.top && fr.contract != nil && len(args) == 1 {
		if t, ok := args[0].(Term); ok {
			ex.emit(st, t)
		}
	}
	return ex.havocResults(st, c.Signature().Results(), "cb")
}

func (ex *Exec) emittedGet(st *State, et types.Type) string {
	key := "$emitted"
	srt := sx("Array", ex.vc.tc.sortOf(et), "Int")
	if cur, ok := st.ghost[key]; ok {
		return cur
	}
	ex.vc.heapT[key] = heapComp{sort: srt}
	n := ex.initialCompIn(st, key)
	st.ghost[key] = n
	return n
}

func (ex *Exec) emit(st *State, t Term) {
	cur := ex.emittedGet(st, t.T)
	srt := sx("Array", ex.vc.tc.sortOf(t.T), "Int")
	st.ghost["$emitted"] = ex.vc.define("emitted", srt, sx("store", cur, t.S, sx("+", sx("select", cur, t.S), "1")))
}

// emitCount evaluates an emits clause "x T :: count(x)": returns the bound declaration, the bound
// variable, the count term and the element type.
func (ex *Exec) emitCount(env *SpecEnv, e *Clause) (decl, bv, cnt string, et types.Type) {
	q, ok := e.Expr.(EQuant)
	if !ok || len(q.Vars) != 1 {
		sfail("emits clause must have the form 'emits x T :: count(x)'")
	}
	et = env.resolveType(q.Vars[0].Type)
	ex.vc.counter++
	bv = fmt.Sprintf("q_%s_%d", q.Vars[0].Name, ex.vc.counter)
	n := env.sub()
	n.vars[q.Vars[0].Name] = Term{S: bv, T: et}
	ex.vc.noDefine++
	c := func() Term {
		defer func() { ex.vc.noDefine-- }()
		return n.evalTerm(q.Body, types.Typ[types.Int])
	}()
	if isBoolType(c.T) {
		c = Term{S: sIte(c.S, "1", "0"), T: types.Typ[types.Int]}
	}
	return "(" + bv + " " + ex.vc.tc.sortOf(et) + ")", bv, c.S, et
}

func (ex *Exec) inlineClosure(fr *Frame, st *State, f Closure, args []Value) Value {
	if ex.onStack(f.Fn) {
		panic(unsupported("recursive closure " + f.Fn.Name()))
	}
	return ex.inlineCallAt(fr, st, f.Fn, args, f.Binds)
}

// inlineCallAt runs callee symbolically on the caller's state (which is updated in place).
func (ex *Exec) inlineCallAt(fr *Frame, st *State, callee *ssa.Function, args []Value, binds []Value) Value {
	if len(ex.inlining) > 12 {
		panic(unsupported("inlining too deep at " + callee.String()))
	}
	nf := &Frame{fn: callee, vals: map[ssa.Value]Value{}, depth: fr.depth + 1, ex: ex, entry: st.clone(), params: map[string]Value{}}
	if fr == nil {
		nf.depth = 1
	}
	for i, p := range callee.Params {
		nf.vals[p] = args[i]
	}
	for i, fv := range callee.FreeVars {
		nf.vals[fv] = binds[i]
	}
	ex.inlining = append(ex.inlining, callee)
	work := st.clone()
	ex.run(nf, work)
	ex.inlining = ex.inlining[:len(ex.inlining)-1]
	if len(nf.rets) == 0 {
		st.pc = "false"
		return ex.havocResults(st, callee.Signature.Results(), callee.Name())
	}
	var ins []edgeState
	for _, r := range nf.rets {
		ins = append(ins, edgeState{nil, r.st})
	}
	merged := ex.mergeStates(ins)
	*st = *merged.clone()
	nres := callee.Signature.Results().Len()
	var out []Value
	for i := 0; i < nres; i++ {
		var vals []Value
		var guards []string
		for _, r := range nf.rets {
			vals = append(vals, r.vals[i])
			guards = append(guards, r.st.pc)
		}
		out = append(out, ex.mergeValues(vals, guards, callee.Name()))
	}
	switch nres {
	case 0:
		return Tuple{}
	case 1:
		return out[0]
	}
	return Tuple{out}
}

// inlineCall is used from specifications: runs on a scratch state with a neutral path condition.
func (ex *Exec) inlineCall(fn *ssa.Function, args []Value, st *State, safety bool) Value {
	if ex.onStackInline(fn) {
		sfail("recursive Go function %s used in a specification needs a contract", fn.Name())
	}
	st.pc = "true"
	dummy := &Frame{fn: fn, depth: 0, ex: ex}
	return ex.inlineCallAt(dummy, st, fn, args, nil)
}

func (ex *Exec) onStackInline(fn *ssa.Function) bool {
	for _, f := range ex.inlining {
		if f == fn {
			return true
		}
	}
	return false
}

// ---- contracts at call sites -------------------------------------------------------------

func paramNames(fn *ssa.Function, ct *Contract, c *ssa.CallCommon) []string {
	var names []string
	if fn != nil {
		for _, p := range fn.Params {
			names = append(names, p.Name())
		}
		return names
	}
	// interface method: receiver is "self", parameters from the contract header or the signature
	names = append(names, "self")
	sig := c.Signature()
	for i := 0; i < sig.Params().Len(); i++ {
		n := sig.Params().At(i).Name()
		if i < len(ct.Params) {
			n = ct.Params[i]
		}
		if n == "" {
			n = fmt.Sprintf("p%d", i)
		}
		names = append(names, n)
	}
	return names
}

func (ex *Exec) contractEnv(st, old *State, fn *ssa.Function, ct *Contract, names []string, args []Value) *SpecEnv {
	env := &SpecEnv{ex: ex, st: st, old: old, vars: map[string]Value{}}
	if pk := ex.prog.typesPkgByRel(ct.PkgPath); pk != nil {
		env.pkg = pk
	}
	if fn != nil {
		env.cbElem = callbackElemType(fn)
	}
	for i, n := range names {
		if i < len(args) {
			env.vars[n] = args[i]
		}
	}
	// header parameter names may rename positional parameters
	if fn != nil && len(ct.Params) > 0 {
		off := 0
		if fn.Signature.Recv() != nil {
			off = 1
		}
		for i, n := range ct.Params {
			if off+i < len(args) {
				env.vars[n] = args[off+i]
			}
		}
	}
	return env
}

func bindResults(env *SpecEnv, sig *types.Signature, res Value) {
	rs := sig.Results()
	var vals []Value
	switch r := res.(type) {
	case Tuple:
		vals = r.Vs
	default:
		vals = []Value{res}
	}
	for i := 0; i < rs.Len() && i < len(vals); i++ {
		env.vars["ret"+strconv.Itoa(i)] = vals[i]
		if n := rs.At(i).Name(); n != "" && n != "_" {
			env.vars[n] = vals[i]
		}
		if i == 0 {
			env.vars["result"] = vals[i]
		}
		if i == rs.Len()-1 && isErrorType(rs.At(i).Type()) {
			env.vars["err"] = vals[i]
		}
	}
}

func allTerms(vs []Value) bool {
	for _, v := range vs {
		if _, ok := v.(Term); !ok {
			return false
		}
	}
	return true
}

func isErrorType(t types.Type) bool {
	n, ok := types.Unalias(t).(*types.Named)
	return ok && n.Obj().Pkg() == nil && n.Obj().Name() == "error"
}

func (ex *Exec) applyContract(fr *Frame, st *State, fn *ssa.Function, ct *Contract, args []Value, c *ssa.CallCommon, pos token.Pos) Value {
	// addresses of package-level variables become fixed references
	for i, a := range args {
		if p, ok := a.(Ptr); ok {
			if g, isG := p.Loc.Root.(GlobalRoot); isG && len(p.Loc.Path) == 0 {
				args[i] = Term{S: fmt.Sprintf("(- %d)", ex.globalID(g.G)), T: types.NewPointer(p.Loc.T)}
			}
		}
	}
	names := paramNames(fn, ct, c)
	sig := c.Signature()
	cname := ct.Key()
	// preconditions
	pre := ex.contractEnv(st, nil, fn, ct, names, args)
	for _, r := range ct.Requires {
		g := pre.evalTerm(r.Expr, types.Typ[types.Bool]).S
		if fr.top && fr == ex.top {
			ex.top.oblCount["call:"+cname]++
			name := fmt.Sprintf("%s#call(%s)%d.%s", funcKey(ex.top.fn), cname, ex.top.oblCount["call:"+cname], r.Label)
			ex.obligeNamed(st, name, "call.pre", g, "precondition of "+cname+": "+r.Text, pos)
		}
		ex.assume(st, g)
	}
	// termination measure for recursive calls
	if fr.top && fr == ex.top && fn != nil && fn == ex.top.fn && ct.Decr != nil {
		callerV := ex.specTerm(ex.top, ex.top.entry, ct.Decr)
		calleeV := pre.evalTerm(ct.Decr.Expr, nil)
		g := sAnd(sx("<=", "0", callerV.S), sx("<", calleeV.S, callerV.S))
		ex.top.oblCount["decr"]++
		ex.obligeNamed(st, fmt.Sprintf("%s#decreases%d", funcKey(ex.top.fn), ex.top.oblCount["decr"]), "decreases", g, "recursive call decreases "+ct.Decr.Text, pos)
	}
	if ct.Pure && fn != nil && sig.Results().Len() == 1 && allTerms(args) {
		// deterministic: the same uninterpreted application that specifications use
		return ex.applyPureContract(st, fn, ct, args)
	}
	old := st.clone()
	// frame: havoc what the callee may modify
	ex.havocContractMods(fr, st, old, ct, pre)
	// a callee that is handed a callback may invoke it: unless it declares exact emissions, the ghost is havocked
	if fn != nil && len(ct.Emits) == 0 {
		if et := callbackElemType(fn); et != nil {
			ex.emittedGet(st, et)
			st.ghost["$emitted"] = ex.vc.fresh("emitted", sx("Array", ex.vc.tc.sortOf(et), "Int"))
		}
	}
	// results
	res := ex.havocResults(st, sig.Results(), ct.Name)
	if ct.Opts["freshresult"] != "" && sig.Results().Len() == 1 {
		// ASSUMED by the contract: the (single, map-typed) result is a newly made map
		_, isMap := sig.Results().At(0).Type().Underlying().(*types.Map)
		if pt, isPtr := sig.Results().At(0).Type().Underlying().(*types.Pointer); isPtr {
			_, isMap = pt.Elem().Underlying().(*types.Struct) // a newly allocated object
		}
		if isMap {
			if t, isT := res.(Term); isT {
				al := ex.allocSet(st)
				ex.assume(st, sAnd(sx(">", t.S, "0"), sNot(sx("select", al, t.S))))
				st.ghost["$alloc"] = ex.vc.define("alloc", "(Array Int Bool)", sx("store", al, t.S, "true"))
			}
		}
	}
	post := ex.contractEnv(st, old, fn, ct, names, args)
	bindResults(post, sig, res)
	for _, u := range ct.Unfold {
		_ = u // unfold clauses are for verifying the body, not for callers
	}
	for _, e := range ct.Ensures {
		g := post.evalTerm(e.Expr, types.Typ[types.Bool]).S
		if e.Behav != "" {
			preOld := ex.contractEnv(old, nil, fn, ct, names, args)
			var as []string
			for _, a := range ct.BehavAssumes[e.Behav] {
				as = append(as, preOld.evalTerm(a.Expr, types.Typ[types.Bool]).S)
			}
			if len(as) == 0 {
				continue // a behaviour without assumptions that is not proved (known finding) must not be relied on
			}
			g = sImp(sAnd(as...), g)
		}
		ex.assume(st, g)
	}
	// callee emissions through a callback that the caller passed on: on success exactly the declared counts
	for _, e := range ct.Emits {
		decl, bv, cnt, et := ex.emitCount(ex.contractEnv(old, nil, fn, ct, names, args), e)
		cur := ex.emittedGet(st, et)
		srt := sx("Array", ex.vc.tc.sortOf(et), "Int")
		nw := ex.vc.fresh("emitted", srt)
		exact := fmt.Sprintf("(forall (%s) (! (= (select %s %s) (+ (select %s %s) %s)) :pattern ((select %s %s))))", decl, nw, bv, cur, bv, cnt, nw, bv)
		if ev, ok := post.vars["err"]; ok {
			exact = sImp(sEq(ev.(Term).S, "Dyn_nil"), exact)
		}
		ex.assume(st, exact)
		st.ghost["$emitted"] = nw
	}
	return res
}

// applyPureContract: a pure contracted function used in a specification becomes an uninterpreted
// function of its arguments (and the heap components named by 'opt reads') constrained by its ensures.
func (ex *Exec) applyPureContract(st *State, fn *ssa.Function, ct *Contract, args []Value) Value {
	name := "pf_" + mangle(ct.Key())
	var sorts, actuals []string
	if rd := ct.Opts["reads"]; rd != "" {
		for _, c := range strings.Split(rd, ",") {
			c = strings.TrimSpace(c)
			ex.ensureComp(st, c)
			sorts = append(sorts, ex.compSort(c))
			actuals = append(actuals, ex.compTerm(st, c))
		}
	}
	for i, a := range args {
		pt := fn.Params[i].Type()
		t := ex.asTerm(a, pt)
		if isInterface(pt) && !isInterface(t.T) && ex.dynRepresentable(t.T) {
			// a concrete value handed to an interface parameter (specifications do not write the conversion)
			t = Term{S: sx(ex.vc.tc.dynCtor(t.T), t.S), T: pt}
		}
		sorts = append(sorts, ex.vc.tc.sortOf(pt))
		actuals = append(actuals, t.S)
	}
	rs := fn.Signature.Results()
	if rs.Len() != 1 {
		sfail("pure contracted function %s must have one result to be used in specifications", fn.Name())
	}
	rt := rs.At(0).Type()
	ex.vc.declareFun(name, "("+strings.Join(sorts, " ")+")", ex.vc.tc.sortOf(rt))
	res := Term{S: sx(name, actuals...), T: rt}
	if ct.Opts["reads"] == "" {
		// heap-independent: its contract is one universally quantified background fact
		ex.pureAxiom(fn, ct, name, rt)
		return res
	}
	if ex.pureExpanding == nil {
		ex.pureExpanding = map[string]int{}
	}
	if ex.pureExpanding[name] > 0 || len(ex.pureExpanding) > 6 {
		return res // nested occurrence: the bare application
	}
	ex.pureExpanding[name]++
	defer func() { delete(ex.pureExpanding, name) }()
	var names []string
	for _, p := range fn.Params {
		names = append(names, p.Name())
	}
	env := ex.contractEnv(st, st, fn, ct, names, args)
	env.vars["result"] = res
	env.vars["ret0"] = res
	var pres []string
	for _, r := range ct.Requires {
		pres = append(pres, env.evalTerm(r.Expr, types.Typ[types.Bool]).S)
	}
	for _, e := range ct.Ensures {
		ex.assume(st, sImp(sAnd(pres...), env.evalTerm(e.Expr, types.Typ[types.Bool]).S))
	}
	return res
}

// pureAxiom: forall params. requires ==> ensures[result := f(params)], generated once per function.
func (ex *Exec) pureAxiom(fn *ssa.Function, ct *Contract, name string, rt types.Type) {
	if ex.autoDone == nil {
		ex.autoDone = map[string]bool{}
	}
	if ex.autoDone["pure:"+name] {
		return
	}
	ex.autoDone["pure:"+name] = true
	if len(ct.Ensures) == 0 {
		return
	}
	scratch := &State{pc: "true", cells: map[*ssa.Alloc]Value{}, heap: map[string]string{}, ghost: map[string]string{}}
	var decls, bvs []string
	var args []Value
	var names []string
	for _, p := range fn.Params {
		ex.vc.counter++
		bv := fmt.Sprintf("q_%s_%d", p.Name(), ex.vc.counter)
		decls = append(decls, "("+bv+" "+ex.vc.tc.sortOf(p.Type())+")")
		bvs = append(bvs, bv)
		args = append(args, Term{S: bv, T: p.Type()})
		names = append(names, p.Name())
	}
	app := sx(name, bvs...)
	env := ex.contractEnv(scratch, scratch, fn, ct, names, args)
	env.vars["result"] = Term{S: app, T: rt}
	env.vars["ret0"] = Term{S: app, T: rt}
	ex.vc.noDefine++
	savedProbing := ex.probing
	ex.probing = 0 // the axiom is a background fact, independent of any probing expansion in progress
	var pres, posts []string
	func() {
		defer func() { ex.vc.noDefine--; ex.probing = savedProbing }()
		for _, r := range ct.Requires {
			pres = append(pres, env.evalTerm(r.Expr, types.Typ[types.Bool]).S)
		}
		for _, e := range ct.Ensures {
			if e.Behav != "" {
				continue
			}
			posts = append(posts, env.evalTerm(e.Expr, types.Typ[types.Bool]).S)
		}
	}()
	if len(posts) == 0 {
		return
	}
	ex.vc.addAxiom("pure_"+name, fmt.Sprintf("(forall (%s) (! %s :pattern (%s)))", strings.Join(decls, " "), sImp(sAnd(pres...), sAnd(posts...)), app), name)
}

// ensureComp registers a heap component given by name "pkg.Type.field".
func (ex *Exec) ensureComp(st *State, comp string) {
	if _, ok := ex.vc.heapT[comp]; ok {
		return
	}
	i := strings.LastIndex(comp, ".")
	j := strings.LastIndex(comp[:i], ".")
	if i < 0 || j < 0 {
		sfail("bad component name %q", comp)
	}
	pk := ex.prog.typesPkgByRel(comp[:j])
	if pk == nil {
		sfail("unknown package in component %q", comp)
	}
	tn, ok := pk.Scope().Lookup(comp[j+1 : i]).(*types.TypeName)
	if !ok {
		sfail("unknown type in component %q", comp)
	}
	s, ok := tn.Type().Underlying().(*types.Struct)
	if !ok {
		sfail("component %q: not a struct", comp)
	}
	for k := 0; k < s.NumFields(); k++ {
		if s.Field(k).Name() == comp[i+1:] {
			c, ft := ex.heapCompName(tn.Type(), k)
			ex.heapGet(st, c, ft)
			return
		}
	}
	sfail("component %q: no such field", comp)
}

// modTargetComp resolves a modifies target to a heap component statically (no state needed).
func (ex *Exec) modTargetComp(ct *Contract, m *Clause) (string, types.Type, bool) {
	sel, ok := m.Expr.(ESel)
	if !ok {
		return "", nil, false
	}
	pk := ex.prog.typesPkgByRel(ct.PkgPath)
	// Type.field form
	if id, ok := sel.X.(EIdent); ok && pk != nil {
		if tn, ok := pk.Scope().Lookup(id.Name).(*types.TypeName); ok {
			if s, ok := tn.Type().Underlying().(*types.Struct); ok {
				for i := 0; i < s.NumFields(); i++ {
					if s.Field(i).Name() == sel.Name {
						comp, ft := ex.heapCompName(tn.Type(), i)
						return comp, ft, true
					}
				}
			}
		}
	}
	return "", nil, false
}

func (ex *Exec) havocContractMods(fr *Frame, st, old *State, ct *Contract, pre *SpecEnv) {
	if ct.ModAll {
		keep := map[string]string{}
		for _, e := range ct.ModExcept {
			comp := ct.PkgPath + "." + e
			ex.ensureComp(st, comp)
			keep[comp] = ex.compTerm(st, comp)
		}
		ms := newModSet()
		ms.allHeap = true
		ex.havocModSet(fr, st, ms, ex.vc.name("call"))
		for comp, t := range keep {
			st.heap[comp] = t
		}
		return
	}
	if ct.Pure || (ct.HasMod && len(ct.Modifies) == 0) {
		return
	}
	if !ct.HasMod {
		ms := newModSet()
		ms.allHeap = true
		ex.havocModSet(fr, st, ms, ex.vc.name("call"))
		return
	}
	for _, m := range ct.Modifies {
		ex.havocTarget(st, old, ct, m, pre)
	}
}

// havocTarget havocs one modifies target: "x.f" (field f of the object x), "T.f" (the whole component),
// "x.f at S" is written "T.f in S" -> handled by modifiesIn.
func (ex *Exec) havocTarget(st, old *State, ct *Contract, m *Clause, pre *SpecEnv) {
	vc := ex.vc
	if id, ok := m.Expr.(EIdent); ok && id.Name == "everything" {
		ms := newModSet()
		ms.allHeap = true
		ex.havocModSet(nil, st, ms, vc.name("call"))
		return
	}
	if comp, ft, ok := ex.modTargetComp(ct, m); ok {
		ex.heapGet(st, comp, ft)
		st.heap[comp] = vc.fresh("Hc_"+comp, ex.compSort(comp))
		return
	}
	if comp, idx, rt, ok := ex.ghostTarget(pre, m.Expr); ok {
		cur := ex.ghostCur(st, comp)
		nv := vc.fresh("gv", vc.tc.sortOf(rt))
		st.ghost[comp] = vc.define("G_"+mangle(comp), ex.compSort(comp), sx("store", cur, idx, nv))
		return
	}
	// "T.f in S": component restricted to a set of references
	if b, ok := m.Expr.(EBin); ok && b.Op == "in" {
		mm := &Clause{Expr: b.L, Text: m.Text}
		comp, ft, ok := ex.modTargetComp(ct, mm)
		if !ok {
			sfail("modifies: cannot resolve %s", m.Text)
		}
		set := pre.evalTerm(b.R, nil)
		h := ex.heapGet(st, comp, ft)
		nh := vc.fresh("Hc_"+comp, ex.compSort(comp))
		ex.assume(st, fmt.Sprintf("(forall ((qr! Int)) (! (=> (not (select %s qr!)) (= (select %s qr!) (select %s qr!))) :pattern ((select %s qr!))))", set.S, nh, h, nh))
		st.heap[comp] = nh
		return
	}
	// a map-typed expression: the map object it denotes may change
	if _, isSel := m.Expr.(ESel); !isSel || true {
		if mt, ok := ex.tryMapTarget(pre, m); ok {
			mc := ex.mapCompsOf(mt.T)
			for _, c := range []string{mc.has, mc.val, mc.ln} {
				h := ex.mapHeap(st, c)
				hc := ex.vc.heapT[c]
				nv := vc.fresh("mh", hc.sort)
				st.heap[c] = vc.define("Mx", ex.compSort(c), sx("store", h, mt.S, nv))
			}
			return
		}
	}
	sel, ok := m.Expr.(ESel)
	if !ok {
		sfail("modifies: unsupported target %s", m.Text)
	}
	base := pre.evalTerm(sel.X, nil)
	p, ok := base.T.Underlying().(*types.Pointer)
	if !ok {
		sfail("modifies: %s is not a field of a referenced object", m.Text)
	}
	s, ok := p.Elem().Underlying().(*types.Struct)
	if !ok {
		sfail("modifies: %s", m.Text)
	}
	for i := 0; i < s.NumFields(); i++ {
		if s.Field(i).Name() == sel.Name {
			comp, ft := ex.heapCompName(p.Elem(), i)
			h := ex.heapGet(st, comp, ft)
			nv := ex.havocValue(st, "hv_"+sel.Name, ft)
			st.heap[comp] = vc.define("H_"+comp, ex.compSort(comp), sx("store", h, base.S, nv.S))
			return
		}
	}
	sfail("modifies: no field %s", sel.Name)
}

// tryMapTarget evaluates a modifies target and reports whether it denotes a map object.
func (ex *Exec) tryMapTarget(pre *SpecEnv, m *Clause) (t Term, ok bool) {
	defer func() {
		if r := recover(); r != nil {
			if _, isSpec := r.(specErr); isSpec {
				ok = false
				return
			}
			panic(r)
		}
	}()
	t = pre.evalTerm(m.Expr, nil)
	_, ok = t.T.Underlying().(*types.Map)
	return t, ok
}

// ---- builtins ------------------------------------------------------------------------------

func (ex *Exec) sliceParts(t Term) (arr, ln string) {
	so := ex.vc.tc.sortOf(t.T)
	s := t.S
	if d, ok := ex.vc.defs[s]; ok && d.def != "" {
		s = d.def
	}
	pre := "(mk_" + so + " "
	if strings.HasPrefix(s, pre) {
		parts := splitSexp(s[len(pre) : len(s)-1])
		if len(parts) == 2 {
			return parts[0], parts[1]
		}
	}
	return sx("arr_"+so, t.S), sx("len_"+so, t.S)
}

func splitSexp(s string) []string {
	var out []string
	d := 0
	start := -1
	for i := 0; i < len(s); i++ {
		c := s[i]
		switch {
		case c == '(':
			if d == 0 && start < 0 {
				start = i
			}
			d++
		case c == ')':
			d--
			if d == 0 {
				out = append(out, s[start:i+1])
				start = -1
			}
		case c == ' ':
			if d == 0 && start >= 0 {
				out = append(out, s[start:i])
				start = -1
			}
		default:
			if start < 0 {
				start = i
			}
		}
	}
	if start >= 0 {
		out = append(out, s[start:])
	}
	return out
}

func (ex *Exec) litValue(s string) (int64, bool) {
	v, err := strconv.ParseInt(s, 10, 64)
	return v, err == nil
}

func (ex *Exec) idxAdd(a, b string) string { return sx("+", a, b) }

func (ex *Exec) builtin(fr *Frame, st *State, b *ssa.Builtin, c *ssa.CallCommon, pos token.Pos) Value {
	tc := ex.vc.tc
	intT := types.Typ[types.Int]
	switch b.Name() {
	case "len", "cap":
		v := ex.operand(fr, st, c.Args[0])
		t := ex.asTerm(v, c.Args[0].Type())
		switch u := c.Args[0].Type().Underlying().(type) {
		case *types.Slice:
			_, ln := ex.sliceParts(t)
			return Term{S: ln, T: intT}
		case *types.Map:
			return ex.mapLen(st, t)
		case *types.Array:
			return Term{S: tc.idxLit(u.Len()), T: intT}
		case *types.Pointer:
			if at, ok := u.Elem().Underlying().(*types.Array); ok {
				return Term{S: tc.idxLit(at.Len()), T: intT}
			}
		}
		if isStringType(c.Args[0].Type()) {
			ex.strAxioms()
			return Term{S: sx("g_strlen", t.S), T: intT}
		}
		panic(unsupported("len of " + c.Args[0].Type().String()))
	case "append":
		s := ex.term(fr, st, c.Args[0])
		if isStringType(c.Args[1].Type()) {
			str := ex.term(fr, st, c.Args[1])
			if lit, ok := ex.vc.tc.litOf(str.S); ok && len(lit) <= 16 {
				// append(buf, "literal"...): the bytes are known
				tc := ex.vc.tc
				so := tc.sortOf(s.T)
				sarr, slen := ex.sliceParts(s)
				slen = ex.vc.define("alen", "Int", slen)
				arr := sarr
				byteT := types.Typ[types.Uint8]
				for i := 0; i < len(lit); i++ {
					arr = sx("store", arr, sx("+", slen, fmt.Sprint(i)), tc.intLit64(int64(lit[i]), byteT))
				}
				return Term{S: ex.vc.define("app", so, sx("mk_"+so, arr, sx("+", slen, fmt.Sprint(len(lit))))), T: s.T}
			}
			ex.vc.note("append of non-literal string bytes is opaque in %s", funcKey(fr.fn))
			return ex.havocValue(st, "appendstr", s.T)
		}
		t := ex.term(fr, st, c.Args[1])
		return ex.appendSlices(st, s, t)
	case "copy":
		panic(unsupported("copy builtin"))
	case "delete":
		ex.mapDelete(fr, st, c)
		return Tuple{}
	case "min", "max":
		a := ex.term(fr, st, c.Args[0])
		acc := a
		for _, o := range c.Args[1:] {
			bb := ex.term(fr, st, o)
			op := token.LEQ
			if b.Name() == "max" {
				op = token.GEQ
			}
			cmp := ex.binopTerms(fr, st, op, acc, bb, acc.T, types.Typ[types.Bool], pos)
			acc = Term{S: sIte(cmp.S, acc.S, bb.S), T: acc.T}
		}
		return acc
	case "print", "println":
		return Tuple{}
	case "ssa:wrapnilchk":
		return ex.operand(fr, st, c.Args[0])
	case "ssa:deferstack":
		return Term{S: "0", T: intT}
	case "clear":
		panic(unsupported("clear builtin"))
	}
	panic(unsupported("builtin " + b.Name()))
}

// sprintfTerm: g_sprintf<n>(format, a0, .., a(n-1)) over the boxed arguments read from arr.
func (ex *Exec) sprintfTerm(format, arr string, n int) string {
	name := fmt.Sprintf("g_sprintf%d", n)
	sorts := []string{"Str"}
	actuals := []string{format}
	for i := 0; i < n; i++ {
		sorts = append(sorts, "Dyn")
		actuals = append(actuals, sx("select", arr, ex.vc.tc.idxLit(int64(i))))
	}
	ex.vc.tc.usesDyn = true
	ex.vc.declareFun(name, "("+strings.Join(sorts, " ")+")", "Str")
	return sx(name, actuals...)
}

func (ex *Exec) appendSlices(st *State, s, t Term) Term {
	vc := ex.vc
	tc := vc.tc
	so := tc.sortOf(s.T)
	sarr, slen := ex.sliceParts(s)
	tarr, tlen := ex.sliceParts(t)
	slen = vc.define("alen", tc.idxSort(), slen)
	if n, ok := ex.litValue(tlen); ok && n <= 8 {
		arr := sarr
		for i := int64(0); i < n; i++ {
			arr = sx("store", arr, ex.idxAdd(slen, tc.idxLit(i)), sx("select", tarr, tc.idxLit(i)))
		}
		if n == 0 {
			return Term{S: s.S, T: s.T}
		}
		// normalise "len + 0"
		arr = strings.ReplaceAll(arr, ex.idxAdd(slen, tc.idxLit(0)), slen)
		return Term{S: vc.define("app", so, sx("mk_"+so, arr, ex.idxAdd(slen, tc.idxLit(n)))), T: s.T}
	}
	es := tc.sortOf(s.T.Underlying().(*types.Slice).Elem())
	na := vc.fresh("apparr", sx("Array", tc.idxSort(), es))
	ix := tc.idxSort()
	lt := func(a, b string) string { return ex.cmpIdx("<", a, b) }
	le := func(a, b string) string { return ex.cmpIdx("<=", a, b) }
	ex.assume(st, fmt.Sprintf("(forall ((qk! %s)) (! (=> (and %s %s) (= (select %s qk!) (select %s qk!))) :pattern ((select %s qk!))))", ix, le(tc.idxLit(0), "qk!"), lt("qk!", slen), na, sarr, na))
	minus := sx("-", "qk!", slen)
	ex.assume(st, fmt.Sprintf("(forall ((qk! %s)) (! (=> (and %s %s) (= (select %s qk!) (select %s %s))) :pattern ((select %s qk!))))", ix, le(slen, "qk!"), lt("qk!", ex.idxAdd(slen, tlen)), na, tarr, minus, na))
	return Term{S: vc.define("app", so, sx("mk_"+so, na, ex.idxAdd(slen, tlen))), T: s.T}
}

// ---- defers ---------------------------------------------------------------------------------

func (ex *Exec) runDefers(fr *Frame, st *State) {
	for i := len(fr.defers) - 1; i >= 0; i-- {
		d := fr.defers[i]
		// only unconditional defers in the entry-dominating region are supported: execute call now
		ex.call(fr, st, d.Common(), d)
	}
}

// ---- globals ----------------------------------------------------------------------------------

func (ex *Exec) globalFacts(st *State, g *ssa.Global, term string, et types.Type) {
	if isErrorType(et) {
		// sentinel error: a unique non-nil identity
		ex.vc.tc.usesDyn = true
		id := ex.typeID(types.NewPointer(et))
		k := ex.globalID(g)
		ex.vc.addAxiom("sentinel_"+term, sx("=", term, sx("Dyn_other", fmt.Sprint(id), fmt.Sprint(k))), term)
		return
	}
	if v, ok := ex.prog.globalInit(g, ex); ok {
		ex.vc.addAxiom("init_"+term, sx("=", term, v), term)
		ex.vc.note("package-level variable %s.%s is assumed to keep its initial value", relPkgPath(g.Pkg.Pkg), g.Name())
	}
}

var globalIDs = map[string]int{}

func (ex *Exec) globalID(g *ssa.Global) int {
	k := g.Pkg.Pkg.Path() + "." + g.Name()
	if id, ok := globalIDs[k]; ok {
		return id
	}
	globalIDs[k] = len(globalIDs) + 1000
	return globalIDs[k]
}

// specialCall: assumed semantics for a few library functions that have no Go-level contract file entry.
func (ex *Exec) specialCall(fr *Frame, st *State, callee *ssa.Function, args []Value, c *ssa.CallCommon, pos token.Pos) (Value, bool) {
	name := callee.String()
	switch name {
	case "fmt.Errorf", "errors.New":
		// fresh non-nil error, distinct from every sentinel
		ex.vc.tc.usesDyn = true
		id := ex.typeID(types.NewPointer(callee.Signature.Results().At(0).Type()))
		pl := ex.vc.fresh("errid", "Int")
		ex.assume(st, sx("<", pl, "0"))
		return Term{S: sx("Dyn_other", fmt.Sprint(id), pl), T: callee.Signature.Results().At(0).Type()}, true
	case "sort.Slice", "sort.SliceStable":
		return ex.sortSlice(fr, st, c, args, pos), true
	case "fmt.Sprintf":
		// assumed: the text is a function of the format and the argument values (none of the repository's
		// formatted values observes mutable state); nothing else is known about it
		f := ex.asTerm(args[0], types.Typ[types.String])
		a := ex.asTerm(args[1], callee.Signature.Params().At(1).Type())
		arr, n := ex.sliceParts(a)
		if k, ok := ex.litValue(n); ok {
			return Term{S: ex.sprintfTerm(f.S, arr, int(k)), T: types.Typ[types.String]}, true
		}
		return nil, false
	}
	return nil, false
}

// sortSlice: assumed contract of sort.Slice(x, less). The slice held at the place x was loaded from is
// replaced by one of the same length with the same set of elements, ordered by less (no element is
// less than an earlier one) - which is what sort.Slice guarantees when less is a strict weak order.
func (ex *Exec) sortSlice(fr *Frame, st *State, c *ssa.CallCommon, args []Value, pos token.Pos) Value {
	vc := ex.vc
	tc := vc.tc
	mi, ok := c.Args[0].(*ssa.MakeInterface)
	if !ok {
		panic(unsupported("sort.Slice on a value that is not a direct slice"))
	}
	sv, ok := ex.operand(fr, st, mi.X).(Term)
	if !ok || sv.Org == nil {
		panic(unsupported("sort.Slice on a slice that is not held in a variable"))
	}
	clo, ok := args[1].(Closure)
	if !ok {
		panic(unsupported("sort.Slice with a non-literal less function"))
	}
	ex.top.oblCount["sort"]++
	ord := ex.top.oblCount["sort"]
	// guards about the comparison function (before the slice is permuted)
	if fr.top && fr.contract != nil {
		for _, g := range fr.contract.Guards {
			if g.Kind != "sort" || g.Name != fmt.Sprint(ord) {
				continue
			}
			fr.specEnvExtra["less"] = clo
			goal := ex.specBool(fr, st, g.C)
			delete(fr.specEnvExtra, "less")
			ex.obligeNamed(st, fmt.Sprintf("%s#guard(sort %d)", funcKey(ex.top.fn), ord), "guard", goal, "comparison function of sort #"+fmt.Sprint(ord)+": "+g.C.Text, pos)
		}
	}
	so := tc.sortOf(sv.T)
	et := sv.T.Underlying().(*types.Slice).Elem()
	oldArr, ln := ex.sliceParts(sv)
	oldArr = vc.define("sortold", sx("Array", "Int", tc.sortOf(et)), oldArr)
	ln = vc.define("sortlen", "Int", ln)
	na := vc.fresh("sorted", sx("Array", "Int", tc.sortOf(et)))
	nv := Term{S: vc.define("sortedsl", so, sx("mk_"+so, na, ln)), T: sv.T}
	ex.store(st, *sv.Org, nv)
	inr := func(v string) string { return sAnd(sx("<=", "0", v), sx("<", v, ln)) }
	ex.assume(st, fmt.Sprintf("(forall ((qk! Int)) (! (=> %s (exists ((qj! Int)) (and %s (= (select %s qk!) (select %s qj!))))) :pattern ((select %s qk!))))", inr("qk!"), inr("qj!"), na, oldArr, na))
	ex.assume(st, fmt.Sprintf("(forall ((qj! Int)) (! (=> %s (exists ((qk! Int)) (and %s (= (select %s qk!) (select %s qj!))))) :pattern ((select %s qj!))))", inr("qj!"), inr("qk!"), na, oldArr, oldArr))
	// ordered: for a < b, not less(b, a) - less evaluated on the sorted contents
	vc.noDefine++
	lt := func() Term {
		defer func() { vc.noDefine-- }()
		w := st.clone()
		w.pc = "true"
		intT := types.Typ[types.Int]
		r := ex.inlineCallAt(&Frame{fn: clo.Fn, depth: 0, ex: ex}, w, clo.Fn, []Value{Term{S: "qb!", T: intT}, Term{S: "qa!", T: intT}}, clo.Binds)
		return ex.asTerm(r, types.Typ[types.Bool])
	}()
	ex.assume(st, fmt.Sprintf("(forall ((qa! Int) (qb! Int)) (=> (and (<= 0 qa!) (< qa! qb!) (< qb! %s)) (not %s)))", ln, lt.S))
	vc.note("sort.Slice: assumed contract (same elements, ordered by the comparison function) in %s", funcKey(fr.fn))
	return Tuple{}
}

func (ex *Exec) ifaceSpecial(fr *Frame, st *State, c *ssa.CallCommon, recv Value, args []Value) Value {
	if isErrorType(c.Value.Type()) && c.Method.Name() == "Error" {
		return ex.havocValue(st, "errstr", types.Typ[types.String])
	}
	return nil
}
