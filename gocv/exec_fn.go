package main

// Function driver: CFG cut at loop heads, state merging, loop invariants.

import (
	"fmt"
	"go/ast"
	"go/token"
	"go/types"
	"os"
	"sort"
	"strings"

	"golang.org/x/tools/go/ssa"
)

type edgeState struct {
	from *ssa.BasicBlock
	st   *State
}

func isBackEdge(from, to *ssa.BasicBlock) bool {
	return to.Dominates(from)
}

func findLoops(fn *ssa.Function) map[*ssa.BasicBlock]*loopInfo {
	loops := map[*ssa.BasicBlock]*loopInfo{}
	for _, b := range fn.Blocks {
		for _, s := range b.Succs {
			if isBackEdge(b, s) {
				li := loops[s]
				if li == nil {
					li = &loopInfo{header: s, blocks: map[*ssa.BasicBlock]bool{s: true}}
					loops[s] = li
				}
				// natural loop: nodes that reach b without passing s
				var stack []*ssa.BasicBlock
				if !li.blocks[b] {
					li.blocks[b] = true
					stack = append(stack, b)
				}
				for len(stack) > 0 {
					x := stack[len(stack)-1]
					stack = stack[:len(stack)-1]
					for _, p := range x.Preds {
						if !li.blocks[p] {
							li.blocks[p] = true
							stack = append(stack, p)
						}
					}
				}
			}
		}
	}
	// number loops in source order of their header (block index order follows source order)
	var hs []*ssa.BasicBlock
	for h := range loops {
		hs = append(hs, h)
	}
	sort.Slice(hs, func(i, j int) bool { return loopPos(loops[hs[i]]) < loopPos(loops[hs[j]]) })
	for i, h := range hs {
		loops[h].number = i + 1
	}
	// lexical extent of each loop (a return statement inside a loop body is not part of the natural loop)
	if syn := fn.Syntax(); syn != nil {
		var stmts []ast.Node
		ast.Inspect(syn, func(n ast.Node) bool {
			switch n.(type) {
			case *ast.FuncLit:
				if n != syn {
					return false
				}
			case *ast.ForStmt, *ast.RangeStmt:
				stmts = append(stmts, n)
			}
			return true
		})
		sort.SliceStable(stmts, func(i, j int) bool { return stmts[i].Pos() < stmts[j].Pos() })
		if len(stmts) == len(hs) {
			var ord []*loopInfo
			var hdrs []string
			for i, h := range hs {
				loops[h].lexStart, loops[h].lexEnd = stmts[i].Pos(), stmts[i].End()
				loops[h].hdr = loopHeaderText(fn.Prog.Fset, stmts[i])
				loops[h].stmt = stmts[i]
				ord = append(ord, loops[h])
				hdrs = append(hdrs, loops[h].hdr)
			}
			if applyAnchors(fn, ord, hdrs) {
				for _, li := range ord {
					li.reanchored = true
				}
			}
		}
	}
	return loops
}

// loopPos: smallest source position of any instruction in the loop (stable under edits elsewhere).
func loopPos(li *loopInfo) token.Pos {
	best := token.Pos(1 << 40)
	for b := range li.blocks {
		for _, in := range b.Instrs {
			if p := in.Pos(); p.IsValid() && p < best {
				best = p
			}
		}
	}
	if best == token.Pos(1<<40) {
		return token.Pos(li.header.Index)
	}
	return best
}

func topoOrder(fn *ssa.Function) []*ssa.BasicBlock {
	seen := map[*ssa.BasicBlock]bool{}
	var post []*ssa.BasicBlock
	var dfs func(b *ssa.BasicBlock)
	dfs = func(b *ssa.BasicBlock) {
		seen[b] = true
		for _, s := range b.Succs {
			if !seen[s] && !isBackEdge(b, s) {
				dfs(s)
			}
		}
		post = append(post, b)
	}
	dfs(fn.Blocks[0])
	for i, j := 0, len(post)-1; i < j; i, j = i+1, j-1 {
		post[i], post[j] = post[j], post[i]
	}
	return post
}

type poison struct{ why string }

func invNo(c *Clause) string {
	if i := strings.LastIndex(c.Label, "."); i >= 0 {
		return c.Label[i+1:]
	}
	return c.Label
}

// mergeStates joins incoming edge states; returns merged state and per-edge guards.
func (ex *Exec) mergeStates(ins []edgeState) *State {
	if len(ins) == 1 {
		return ins[0].st
	}
	vc := ex.vc
	out := &State{cells: map[*ssa.Alloc]Value{}, heap: map[string]string{}, ghost: map[string]string{}}
	var pcs []string
	for _, e := range ins {
		pcs = append(pcs, e.st.pc)
	}
	out.pc = vc.define("pc", "Bool", sOr(pcs...))
	// cells
	keys := map[*ssa.Alloc]bool{}
	for _, e := range ins {
		for k := range e.st.cells {
			keys[k] = true
		}
	}
	for k := range keys {
		var vals []Value
		var guards []string
		for _, e := range ins {
			if v, ok := e.st.cells[k]; ok {
				vals = append(vals, v)
				guards = append(guards, e.st.pc)
			}
		}
		out.cells[k] = ex.mergeValues(vals, guards, k.Comment)
	}
	// captured variables of a function literal verified as a unit (they were dropped at joins before round 7: a clause
	// that named one after an if statement could not be evaluated)
	fkeys := map[*ssa.FreeVar]bool{}
	for _, e := range ins {
		for k := range e.st.free {
			fkeys[k] = true
		}
	}
	for k := range fkeys {
		var vals []Value
		var guards []string
		for _, e := range ins {
			if v, ok := e.st.free[k]; ok {
				vals = append(vals, v)
				guards = append(guards, e.st.pc)
			}
		}
		if out.free == nil {
			out.free = map[*ssa.FreeVar]Value{}
		}
		out.free[k] = ex.mergeValues(vals, guards, k.Name())
	}
	mergeMap := func(get func(*State) map[string]string, set map[string]string, heapLike bool) {
		ks := map[string]bool{}
		for _, e := range ins {
			for k := range get(e.st) {
				ks[k] = true
			}
		}
		for k := range ks {
			var terms, guards []string
			same := true
			for _, e := range ins {
				t, ok := get(e.st)[k]
				if !ok {
					if heapLike {
						t = ex.initialCompIn(e.st, k)
					} else {
						continue
					}
				}
				if len(terms) > 0 && terms[0] != t {
					same = false
				}
				terms = append(terms, t)
				guards = append(guards, e.st.pc)
			}
			if same {
				set[k] = terms[0]
				continue
			}
			srt := ex.compSort(k)
			acc := terms[len(terms)-1]
			for i := len(terms) - 2; i >= 0; i-- {
				acc = sIte(guards[i], terms[i], acc)
			}
			set[k] = vc.define("mg", srt, acc)
		}
	}
	mergeMap(func(s *State) map[string]string { return s.heap }, out.heap, true)
	mergeMap(func(s *State) map[string]string { return s.ghost }, out.ghost, true)
	return out
}

func (ex *Exec) compSort(k string) string {
	if hc, ok := ex.vc.heapT[k]; ok {
		if hc.isArr {
			ix := hc.idx
			if ix == "" {
				ix = "Int"
			}
			return sx("Array", ix, hc.sort)
		}
		return hc.sort
	}
	panic(fmt.Sprintf("unknown component %s", k))
}

// initialComp returns the initial-state constant of a heap/ghost component that exists in heapT.
func (ex *Exec) initialComp(k string) string {
	hc := ex.vc.heapT[k]
	pre := "H0_"
	if !hc.isArr {
		pre = "G0_"
	}
	name := pre + mangle(trimCompPrefix(k))
	ex.vc.declareConst(name, ex.compSort(k))
	return name
}

// initialCompIn: the symbol a component has when it is first read in state st: its initial value, unless the whole
// heap was havocked since (then a symbol of that epoch; immutable globals and the allocation set keep theirs).
func (ex *Exec) initialCompIn(st *State, k string) string {
	if st == nil || st.epoch == "" || k == "$alloc" {
		return ex.initialComp(k)
	}
	if g := ex.prog.globalByComp[k]; g != nil && !ex.prog.mutableGlobals[g] {
		return ex.initialComp(k)
	}
	name := "E" + st.epoch + "_" + mangle(trimCompPrefix(k))
	ex.vc.declareConst(name, ex.compSort(k))
	return name
}

func trimCompPrefix(k string) string {
	if len(k) > 2 && k[1] == ':' {
		return k[2:]
	}
	return k
}

func (ex *Exec) mergeValues(vals []Value, guards []string, hint string) Value {
	allSame := true
	for _, v := range vals[1:] {
		if !sameValue(vals[0], v) {
			allSame = false
		}
	}
	if allSame {
		return vals[0]
	}
	var terms []Term
	allFn, anyFn := true, false
	for _, v := range vals {
		switch x := v.(type) {
		case Closure, FnRef, MergedFn:
			anyFn = true
		case Term:
			// the nil function value (an error return next to a closure return) is an alternative nobody can call
			if _, isSig := x.T.Underlying().(*types.Signature); !isSig {
				allFn = false
			}
		default:
			allFn = false
		}
	}
	if allFn && anyFn {
		// different function values meet at a join: remember the alternatives; a call havocs what any may write
		var mf MergedFn
		for _, v := range vals {
			switch f := v.(type) {
			case MergedFn:
				mf.Alts = append(mf.Alts, f.Alts...)
			case Term:
			default:
				mf.Alts = append(mf.Alts, v)
			}
		}
		return mf
	}
	for _, v := range vals {
		t, ok := v.(Term)
		if !ok {
			return poison{"merge of distinct pointer/closure values in " + hint}
		}
		terms = append(terms, t)
	}
	acc := terms[len(terms)-1].S
	for i := len(terms) - 2; i >= 0; i-- {
		acc = sIte(guards[i], terms[i].S, acc)
	}
	if hint == "" {
		hint = "m"
	}
	return Term{S: ex.vc.define("phi_"+hint, ex.vc.tc.sortOf(terms[0].T), acc), T: terms[0].T}
}

func sameValue(a, b Value) bool {
	switch x := a.(type) {
	case Term:
		y, ok := b.(Term)
		return ok && x.S == y.S
	case Ptr:
		y, ok := b.(Ptr)
		if !ok || len(x.Loc.Path) != len(y.Loc.Path) {
			return false
		}
		if fmt.Sprint(x.Loc.Root) != fmt.Sprint(y.Loc.Root) {
			return false
		}
		for i := range x.Loc.Path {
			if x.Loc.Path[i].Field != y.Loc.Path[i].Field || x.Loc.Path[i].Index != y.Loc.Path[i].Index {
				return false
			}
		}
		return true
	case Closure:
		y, ok := b.(Closure)
		return ok && x.Fn == y.Fn
	case FnRef:
		y, ok := b.(FnRef)
		return ok && x.Fn == y.Fn
	case nil:
		return b == nil
	}
	return false
}

// run executes fr.fn from state st. Returns are collected in fr.rets.
func (ex *Exec) run(fr *Frame, st *State) {
	fn := fr.fn
	if len(fn.Blocks) == 0 {
		panic(unsupported("function without body: " + fn.String()))
	}
	fr.loops = findLoops(fn)
	for _, li := range fr.loops {
		if fr.contract != nil {
			li.spec = fr.contract.Loops[li.number]
		}
	}
	order := topoOrder(fn)
	incoming := map[*ssa.BasicBlock][]edgeState{}
	incoming[fn.Blocks[0]] = []edgeState{{nil, st}}
	for _, b := range order {
		ins := incoming[b]
		if len(ins) == 0 {
			continue
		}
		delete(incoming, b)
		cur := ex.mergeStates(ins)
		if len(ins) > 1 {
			cur = cur.clone()
		}
		// phis
		for _, in := range b.Instrs {
			phi, ok := in.(*ssa.Phi)
			if !ok {
				break
			}
			var vals []Value
			var guards []string
			for _, e := range ins {
				for i, p := range b.Preds {
					if p == e.from {
						vals = append(vals, ex.operand(fr, cur, phi.Edges[i]))
						guards = append(guards, e.st.pc)
						break
					}
				}
			}
			if len(vals) == 0 {
				panic(unsupported("phi without incoming state"))
			}
			fr.vals[phi] = ex.mergeValues(vals, guards, "phi")
		}
		if li := fr.loops[b]; li != nil {
			ex.loopHead(fr, li, cur)
		}
		ex.block(fr, b, cur, incoming)
	}
}

func (ex *Exec) pushEdge(fr *Frame, from, to *ssa.BasicBlock, st *State, incoming map[*ssa.BasicBlock][]edgeState) {
	if isBackEdge(from, to) {
		ex.loopBack(fr, fr.loops[to], st, from)
		return
	}
	if fr == ex.top {
		for _, li := range fr.loops {
			// the loop's region: its cycle plus the blocks written inside the loop statement that are not part of the
			// cycle (bodies ending in break or return). An exit is an edge from the region to the code after the loop;
			// returns never get there and are covered by return guards.
			inRegion := func(b *ssa.BasicBlock) bool {
				if li.blocks[b] {
					return true
				}
				bp := blockPos(b)
				return li.lexStart.IsValid() && bp.IsValid() && li.lexStart <= bp && bp < li.lexEnd
			}
			if li.spec == nil || len(li.spec.AtExit) == 0 || !inRegion(from) || inRegion(to) {
				continue
			}
			name := ex.loopName(fr, li)
			fr.curLoop = li.number
			for _, ae := range li.spec.AtExit {
				g := ex.specBool(fr, st, ae)
				ex.obligeNamed(st, fmt.Sprintf("%s.%s@b%d", name, invNo(ae), from.Index), "loop.exit", g, "holds whenever the loop is left: "+ae.Text, loopPos(li))
			}
			fr.curLoop = 0
		}
	}
	incoming[to] = append(incoming[to], edgeState{from, st})
}

// ---- loops ------------------------------------------------------------------------

func (ex *Exec) loopHead(fr *Frame, li *loopInfo, st *State) {
	name := ex.loopName(fr, li)
	// (a loop in an inlined callee or function literal has no clauses: it is cut at its head like any loop, with the
	// invariant "true")
	if li.spec == nil {
		li.spec = &LoopSpec{}
	}
	pos := loopPos(li)
	// the iteration ghost of a map range loop (its Next sits in the header)
	for _, in := range li.header.Instrs {
		if nx, ok := in.(*ssa.Next); ok {
			if it, ok := fr.vals[nx.Iter].(mapIter); ok {
				if fr.loopSeen == nil {
					fr.loopSeen = map[int]mapIter{}
				}
				fr.loopSeen[li.number] = it
			}
		}
	}
	fr.curLoop = li.number
	fr.atHead = li
	defer func() { fr.curLoop = 0; fr.atHead = nil }()
	if li.reanchored && li.riOrdinal > 0 && rangeIndexAlloc(li) == nil && !li.autoInvDone {
		li.autoInvDone = true
		if inv := counterBoundInvariant(fr.fn, li); inv != nil {
			if fr.synthLocals == nil {
				fr.synthLocals = map[string]*ssa.Alloc{}
			}
			fr.synthLocals[fmt.Sprintf("gocvctr%d", li.number)] = counterOf(fr.fn, li)
			// only if the clause can be evaluated here (the bound may name something the verifier cannot resolve)
			if _, ok := ex.trySpecBool(fr, st, inv); ok {
				spec := *li.spec
				spec.Invariants = append(append([]*Clause{}, li.spec.Invariants...), inv)
				li.spec = &spec
			}
		}
	}
	// init
	for _, inv := range li.spec.Invariants {
		g := ex.specBool(fr, st, inv)
		ex.obligeNamed(st, fmt.Sprintf("%s.init.%s", name, invNo(inv)), "loop.init", g, "loop invariant holds on entry: "+inv.Text, pos)
	}
	// havoc
	ms := ex.loopModSet(fr, li)
	if os.Getenv("GOCV_DEBUG_EFFECTS") != "" {
		var cs []string
		for a := range ms.cells {
			cs = append(cs, a.Comment)
		}
		fmt.Fprintf(os.Stderr, "loop %d of %s: allCell=%v allHeap=%v cells=%v\n", li.number, fr.fn.Name(), ms.allCell, ms.allHeap, cs)
	}
	ex.havocModSet(fr, st, ms, fmt.Sprintf("L%d", li.number))
	// range-over-slice loops: the hidden index stays within [-1, len) by construction of the lowering
	ex.rangeIndexFact(fr, li, st)
	// assume invariants
	for _, inv := range li.spec.Invariants {
		ex.assume(st, ex.specBool(fr, st, inv))
	}
	if li.spec.Variant != nil {
		v := ex.specTerm(fr, st, li.spec.Variant)
		li.variant = ex.vc.define("variant", ex.vc.tc.sortOf(v.T), v.S)
	}
	li.headSt = st.clone()
	if fr.headSts == nil {
		fr.headSts = map[int]*State{}
	}
	fr.headSts[li.number] = li.headSt
}

func (ex *Exec) loopName(fr *Frame, li *loopInfo) string {
	if fr != ex.top && fr.fn != ex.top.fn {
		return fmt.Sprintf("%s#inl(%s).loop%d", funcKey(ex.top.fn), fr.fn.Name(), li.number)
	}
	return fmt.Sprintf("%s#loop%d", funcKey(ex.top.fn), li.number)
}

func (ex *Exec) loopBack(fr *Frame, li *loopInfo, st *State, from *ssa.BasicBlock) {
	fr.curLoop = li.number
	fr.atHead = li
	defer func() { fr.curLoop = 0; fr.atHead = nil }()
	name := ex.loopName(fr, li)
	pos := loopPos(li)
	for _, inv := range li.spec.Invariants {
		g := ex.specBool(fr, st, inv)
		ex.obligeNamed(st, fmt.Sprintf("%s.step.%s@b%d", name, invNo(inv), from.Index), "loop.step", g, "loop invariant preserved: "+inv.Text, pos)
	}
	for _, ab := range li.spec.AtBack {
		fr.prevSt = li.headSt
		g, live := ex.specBoolIfLive(fr, st, ab)
		fr.prevSt = nil
		if !live {
			// the clause names a local whose declaration this path did not reach (e.g. a continue before it)
			continue
		}
		ex.obligeNamed(st, fmt.Sprintf("%s.%s@b%d", name, invNo(ab), from.Index), "loop.back", g, "holds whenever the loop continues: "+ab.Text, pos)
	}
	if li.spec.Variant != nil {
		v := ex.specTerm(fr, st, li.spec.Variant)
		var g string
		if ex.vc.tc.isBV(v.T) {
			g = sAnd(sx("bvsle", ex.vc.tc.intLit64(0, v.T), li.variant), sx("bvslt", v.S, li.variant))
		} else {
			g = sAnd(sx("<=", "0", li.variant), sx("<", v.S, li.variant))
		}
		ex.obligeNamed(st, fmt.Sprintf("%s.variant@b%d", name, from.Index), "variant", g, "loop variant decreases and is bounded: "+li.spec.Variant.Text, pos)
	}
}

type modSet struct {
	cells   map[*ssa.Alloc]bool
	comps   map[string]types.Type // heap components (value: element type)
	globals map[*ssa.Global]bool
	allHeap bool
	allCell bool
	maps    map[string]types.Type
	nexts   []*ssa.Next
	// targeted writes: heap component (or map type) written only through these base values
	compAt map[string][]ssa.Value
	mapAt  map[string][]ssa.Value
	whole  map[string]bool // component/map type also written through an unknown base
	loop   *loopInfo       // the loop this set was computed for (nil for calls)
	ghosts map[string]bool // ghost components written (through "modifies ghostname(x)" clauses of callees)
}

func newModSet() *modSet {
	return &modSet{cells: map[*ssa.Alloc]bool{}, comps: map[string]types.Type{}, globals: map[*ssa.Global]bool{}, maps: map[string]types.Type{},
		compAt: map[string][]ssa.Value{}, mapAt: map[string][]ssa.Value{}, whole: map[string]bool{}, ghosts: map[string]bool{}}
}

func (ex *Exec) loopModSet(fr *Frame, li *loopInfo) *modSet {
	ms := newModSet()
	ms.loop = li
	freshResultCall = func(cl *ssa.Call) bool {
		ct := ex.prog.contractFor(cl.Common().StaticCallee())
		return ct != nil && ct.Opts["freshresult"] != ""
	}
	for b := range li.blocks {
		for _, in := range b.Instrs {
			ex.instrEffects(fr.fn, in, ms, nil, 0)
		}
	}
	return ms
}

// instrEffects accumulates what an instruction may write. binds maps FreeVars of a closure body to outer values.
func (ex *Exec) instrEffects(fn *ssa.Function, in ssa.Instruction, ms *modSet, binds map[*ssa.FreeVar]ssa.Value, depth int) {
	switch x := in.(type) {
	case *ssa.Alloc:
		ms.cells[x] = true
	case *ssa.Store:
		ex.addrEffects(x.Addr, ms, binds)
	case *ssa.MapUpdate:
		k := x.Map.Type().Underlying().String()
		if depth > 0 && binds == nil && ex.scanOwn != nil && loopFresh(x.Map, ex.scanOwn) {
			break
		}
		ms.maps[k] = x.Map.Type()
		if binds == nil && depth == 0 {
			ms.mapAt[k] = append(ms.mapAt[k], x.Map)
		} else {
			ms.whole[k] = true
		}
	case *ssa.Next:
		ms.nexts = append(ms.nexts, x)
	case *ssa.Call:
		ex.callEffects(fn, x.Common(), ms, binds, depth)
	case *ssa.Defer:
		ex.callEffects(fn, x.Common(), ms, binds, depth)
	case *ssa.Go:
		ms.allHeap = true
	}
}

func (ex *Exec) addrEffects(addr ssa.Value, ms *modSet, binds map[*ssa.FreeVar]ssa.Value) {
	cur := addr
	var firstField *ssa.FieldAddr
	for {
		switch a := cur.(type) {
		case *ssa.Alloc:
			if ex.isHeapAlloc(a) {
				if firstField != nil {
					comp, ft := ex.heapCompName(a.Type().(*types.Pointer).Elem(), firstField.Field)
					ms.comps[comp] = ft
					ms.whole[comp] = true
				} else {
					ex.allFieldsOf(a.Type().(*types.Pointer).Elem(), ms)
				}
			} else {
				ms.cells[a] = true
			}
			return
		case *ssa.FieldAddr:
			firstField = a
			cur = a.X
			continue
		case *ssa.IndexAddr:
			firstField = nil
			if _, isPtr := a.X.Type().Underlying().(*types.Pointer); isPtr {
				cur = a.X
				continue
			}
			// slice: where was it loaded from
			if u, ok := a.X.(*ssa.UnOp); ok && u.Op == token.MUL {
				cur = u.X
				// the store updates the slice held at that address: field chain restarts below it
				ex.addrEffects(cur, ms, binds)
				return
			}
			return // detached slice: store unsupported at execution time
		case *ssa.Global:
			ms.globals[a] = true
			return
		case *ssa.FreeVar:
			if binds != nil {
				if b, ok := binds[a]; ok {
					cur = b
					continue
				}
			}
			ms.allCell = true
			return
		default:
			// a pointer-typed LOCAL that holds addresses of (parts of) other locals, e.g. last := &result[n-1]:
			// writing through it writes those locals
			if u, isLoad := cur.(*ssa.UnOp); isLoad && u.Op == token.MUL {
				if pa, isAlloc := u.X.(*ssa.Alloc); isAlloc && !ex.isHeapAlloc(pa) && pa.Referrers() != nil {
					all, some := true, false
					for _, r := range *pa.Referrers() {
						sr, isStore := r.(*ssa.Store)
						if !isStore || sr.Addr != pa {
							continue
						}
						switch sr.Val.(type) {
						case *ssa.IndexAddr, *ssa.FieldAddr, *ssa.Alloc:
							ex.addrEffects(sr.Val, ms, binds)
							some = true
						default:
							all = false
						}
					}
					if some && all {
						return
					}
				}
			}
			// pointer-typed value: heap reference
			if pt, ok := cur.Type().Underlying().(*types.Pointer); ok {
				if _, isStruct := pt.Elem().Underlying().(*types.Struct); isStruct {
					if firstField != nil && firstField.X == cur {
						comp, ft := ex.heapCompName(pt.Elem(), firstField.Field)
						ms.comps[comp] = ft
						if binds == nil {
							ms.compAt[comp] = append(ms.compAt[comp], cur)
						} else {
							ms.whole[comp] = true
						}
					} else if firstField != nil {
						// nested path below a field of the struct at cur
						f := firstField
						for {
							if inner, ok := f.X.(*ssa.FieldAddr); ok {
								f = inner
								continue
							}
							break
						}
						comp, ft := ex.heapCompName(pt.Elem(), f.Field)
						ms.comps[comp] = ft
						if binds == nil && f.X == cur {
							ms.compAt[comp] = append(ms.compAt[comp], cur)
						} else {
							ms.whole[comp] = true
						}
					} else {
						ex.allFieldsOf(pt.Elem(), ms)
					}
					return
				}
			}
			if os.Getenv("GOCV_DEBUG_EFFECTS") != "" {
				fmt.Fprintf(os.Stderr, "addrEffects: unknown root %T %s for %s\n", cur, cur.String(), addr.String())
			}
			ms.allCell = true
			ms.allHeap = true
			return
		}
	}
}

func (ex *Exec) allFieldsOf(t types.Type, ms *modSet) {
	st, ok := t.Underlying().(*types.Struct)
	if !ok {
		ms.allHeap = true
		return
	}
	for i := 0; i < st.NumFields(); i++ {
		comp, ft := ex.heapCompName(t, i)
		ms.comps[comp] = ft
		ms.whole[comp] = true
	}
}

func (ex *Exec) callEffects(fn *ssa.Function, c *ssa.CallCommon, ms *modSet, binds map[*ssa.FreeVar]ssa.Value, depth int) {
	// cells whose address is passed
	for _, a := range c.Args {
		if al, ok := a.(*ssa.Alloc); ok && !ex.isHeapAlloc(al) {
			ms.cells[al] = true
		}
	}
	if c.IsInvoke() {
		// closures passed to an interface method run inside it: what they write (captured locals included) counts
		for _, a := range c.Args {
			if mc, ok := a.(*ssa.MakeClosure); ok {
				ex.closureEffects(mc, ms, binds, depth)
			}
		}
		if ct := ex.prog.ifaceContract(c); ct != nil {
			ex.contractEffects(ct, ms, nil, c, depth)
			return
		}
		ms.allHeap = true
		return
	}
	switch v := c.Value.(type) {
	case *ssa.Builtin:
		if v.Name() == "delete" || v.Name() == "clear" {
			k := c.Args[0].Type().Underlying().String()
			if depth > 0 && binds == nil && ex.scanOwn != nil && loopFresh(c.Args[0], ex.scanOwn) {
				return
			}
			ms.maps[k] = c.Args[0].Type()
			if binds == nil && depth == 0 {
				ms.mapAt[k] = append(ms.mapAt[k], c.Args[0])
			} else {
				ms.whole[k] = true
			}
		}
		return
	case *ssa.MakeClosure:
		ex.closureEffects(v, ms, binds, depth)
		return
	}
	callee := c.StaticCallee()
	if callee == nil {
		// call of a function value: closures created in this function are handled where they are created
		if ex.isOpaqueCallback(c.Value) {
			return
		}
		// a local variable that only ever holds function literals of this function: their effects
		if ld, isLoad := c.Value.(*ssa.UnOp); isLoad && ld.Op == token.MUL {
			if a, isAlloc := ld.X.(*ssa.Alloc); isAlloc && a.Referrers() != nil {
				var lits []*ssa.MakeClosure
				ok := true
				for _, r := range *a.Referrers() {
					switch y := r.(type) {
					case *ssa.Store:
						mc, isMC := y.Val.(*ssa.MakeClosure)
						if y.Addr != a || !isMC {
							if fnv, isFn := y.Val.(*ssa.Function); isFn && y.Addr == a && len(fnv.FreeVars) == 0 {
								ok = false // plain function value: fall back
							} else {
								ok = false
							}
						} else {
							lits = append(lits, mc)
						}
					case *ssa.UnOp, *ssa.DebugRef:
					default:
						ok = false
					}
				}
				if ok && len(lits) > 0 {
					for _, mc := range lits {
						ex.closureEffects(mc, ms, binds, depth)
					}
					return
				}
			}
		}
		// any other function value (a field such as an option callback): the call itself is executed as an opaque,
		// effect-free callback (callbackCall, an assumption listed in the evidence), so the loop summary agrees
		if _, isClosure := c.Value.(*ssa.MakeClosure); !isClosure {
			return
		}
		ms.allHeap = true
		return
	}
	// closures passed as arguments run inside the callee
	for _, a := range c.Args {
		if mc, ok := a.(*ssa.MakeClosure); ok {
			ex.closureEffects(mc, ms, binds, depth)
		}
	}
	if ct := ex.prog.contractFor(callee); ct != nil {
		ex.contractEffects(ct, ms, callee, c, depth)
		return
	}
	if !ex.prog.inModule(callee) {
		return // stdlib: assumed not to write module state
	}
	if depth > 4 || len(callee.Blocks) == 0 {
		ms.allHeap = true
		return
	}
	// only heap effects of a callee matter to the caller: its locals (and those of its closures) are its own; so is a
	// map the callee makes itself (writes that reach only such a map change nothing the caller's state knows)
	sub := newModSet()
	saveOwn := ex.scanOwn
	ex.scanOwn = &loopInfo{blocks: map[*ssa.BasicBlock]bool{}}
	for _, b := range callee.Blocks {
		ex.scanOwn.blocks[b] = true
	}
	defer func() { ex.scanOwn = saveOwn }()
	for _, b := range callee.Blocks {
		for _, in := range b.Instrs {
			switch y := in.(type) {
			case *ssa.Alloc:
			case *ssa.Store:
				s2 := newModSet()
				ex.addrEffects(y.Addr, s2, nil)
				for k, v := range s2.comps {
					sub.comps[k] = v
				}
				for k := range s2.globals {
					sub.globals[k] = true
				}
				if s2.allHeap && !s2.allCell {
					sub.allHeap = true
				}
			default:
				ex.instrEffects(callee, in, sub, nil, depth+1)
			}
		}
	}
	for k, v := range sub.comps {
		ms.comps[k] = v
	}
	for k := range sub.globals {
		ms.globals[k] = true
	}
	for k, v := range sub.maps {
		ms.maps[k] = v
		ms.whole[k] = true // through whatever map of that type the callee can reach
	}
	if sub.allHeap {
		ms.allHeap = true
	}
}

func (ex *Exec) closureEffects(mc *ssa.MakeClosure, ms *modSet, outer map[*ssa.FreeVar]ssa.Value, depth int) {
	fn := mc.Fn.(*ssa.Function)
	binds := map[*ssa.FreeVar]ssa.Value{}
	for i, fv := range fn.FreeVars {
		b := mc.Bindings[i]
		if ofv, ok := b.(*ssa.FreeVar); ok && outer != nil {
			if ob, ok := outer[ofv]; ok {
				b = ob
			}
		}
		binds[fv] = b
	}
	if depth > 4 {
		ms.allHeap = true
		ms.allCell = true
		return
	}
	for _, b := range fn.Blocks {
		for _, in := range b.Instrs {
			if a, ok := in.(*ssa.Alloc); ok {
				_ = a
				continue
			}
			ex.instrEffects(fn, in, ms, binds, depth+1)
		}
	}
}

func (ex *Exec) contractEffects(ct *Contract, ms *modSet, callee *ssa.Function, c *ssa.CallCommon, depth int) {
	if ct.ModAll {
		ms.allHeap = true
		return
	}
	if ct.Pure || (ct.HasMod && len(ct.Modifies) == 0) {
		return
	}
	if !ct.HasMod {
		ms.allHeap = true
		return
	}
	for _, m := range ct.Modifies {
		comp, ft, ok := ex.modTargetComp(ct, m)
		if ok {
			ms.comps[comp] = ft
			ms.whole[comp] = true
			continue
		}
		// "ghostname(x)": only that ghost component changes
		if gc, isCall := m.Expr.(ECall); isCall && len(gc.Args) == 1 {
			var g *GhostDecl
			switch f := gc.Fn.(type) {
			case EIdent:
				g = ex.prog.cs.Ghosts[ct.PkgPath+"."+f.Name]
			case ESel:
				if q, isQ := f.X.(EIdent); isQ {
					for key, cand := range ex.prog.cs.Ghosts {
						if cand.Name == f.Name && (cand.PkgPath == q.Name || strings.HasSuffix(cand.PkgPath, "/"+q.Name)) {
							_ = key
							g = cand
						}
					}
				}
			}
			if g != nil {
				ms.ghosts["$g:"+g.PkgPath+"."+g.Name] = true
				continue
			}
		}
		// "param" of map type: the map the argument refers to
		if id, isId := m.Expr.(EIdent); isId && callee != nil {
			for i, p := range callee.Params {
				if p.Name() != id.Name || i >= len(c.Args) {
					continue
				}
				if _, isMap := p.Type().Underlying().(*types.Map); isMap {
					k := p.Type().Underlying().String()
					if depth > 0 && ex.scanOwn != nil && loopFresh(c.Args[i], ex.scanOwn) {
						ok = true
						continue
					}
					ms.maps[k] = p.Type()
					if depth == 0 {
						ms.mapAt[k] = append(ms.mapAt[k], c.Args[i])
					} else {
						ms.whole[k] = true
					}
					ok = true
				}
			}
			if ok {
				continue
			}
		}
		// "param.field": a field of the object the argument refers to
		if sel, isSel := m.Expr.(ESel); isSel && callee != nil && depth == 0 {
			if id, isId := sel.X.(EIdent); isId {
				for i, p := range callee.Params {
					if p.Name() != id.Name || i >= len(c.Args) {
						continue
					}
					pt, isPtr := p.Type().Underlying().(*types.Pointer)
					if !isPtr {
						break
					}
					if s, isStruct := pt.Elem().Underlying().(*types.Struct); isStruct {
						for k := 0; k < s.NumFields(); k++ {
							if s.Field(k).Name() == sel.Name {
								comp, ft := ex.heapCompName(pt.Elem(), k)
								ms.comps[comp] = ft
								ms.compAt[comp] = append(ms.compAt[comp], c.Args[i])
								ok = true
							}
						}
					}
				}
			}
		}
		if !ok {
			ms.allHeap = true
			return
		}
	}
}

func (ex *Exec) isOpaqueCallback(v ssa.Value) bool {
	// function-typed parameter (possibly loaded from its cell)
	switch x := v.(type) {
	case *ssa.Parameter:
		return true
	case *ssa.UnOp:
		if a, ok := x.X.(*ssa.Alloc); ok {
			for _, r := range *a.Referrers() {
				if s, ok := r.(*ssa.Store); ok && s.Addr == a {
					if _, isP := s.Val.(*ssa.Parameter); isP {
						return true
					}
				}
			}
		}
	}
	return false
}

func (ex *Exec) havocModSet(fr *Frame, st *State, ms *modSet, tag string) {
	vc := ex.vc
	var cells []*ssa.Alloc
	if ms.allCell {
		for a := range st.cells {
			cells = append(cells, a)
		}
	} else {
		for a := range ms.cells {
			if _, ok := st.cells[a]; ok {
				cells = append(cells, a)
			}
		}
	}
	sort.Slice(cells, func(i, j int) bool { return cells[i].Pos() < cells[j].Pos() })
	for _, a := range cells {
		old := st.cells[a]
		t, ok := old.(Term)
		if !ok {
			if _, isPoison := old.(poison); isPoison {
				continue
			}
			// pointer/closure valued cell modified in loop. A pointer to a struct that the function only ever reads
			// through becomes a reference to an arbitrary allocated object (whatever it pointed to - a global, a
			// local whose address was taken - the reads see arbitrary contents, which covers the real ones).
			if pt, isPtr := a.Type().(*types.Pointer).Elem().Underlying().(*types.Pointer); isPtr {
				if _, isStruct := pt.Elem().Underlying().(*types.Struct); isStruct && readOnlyPointerCell(a) {
					r := ex.vc.fresh(a.Comment+"_"+tag, "Int")
					ex.refFact(st, r)
					ex.assume(st, sx("<", "0", r))
					ex.assume(st, sx("select", ex.allocSet(st), r))
					st.cells[a] = Term{S: r, T: a.Type().(*types.Pointer).Elem()}
					ex.vc.note("pointer-valued local %s of %s is modified in a loop: arbitrary object afterwards (the function only reads through it)", a.Comment, funcKey(fr.fn))
					continue
				}
			}
			st.cells[a] = poison{"pointer-valued local " + a.Comment + " modified in loop"}
			continue
		}
		nm := a.Comment
		if nm == "" {
			nm = "tmp"
		}
		st.cells[a] = ex.havocValue(st, nm+"_"+tag, t.T)
	}
	if ms.allHeap {
		for k := range st.heap {
			if g := ex.prog.globalByComp[k]; g != nil && !ex.prog.mutableGlobals[g] {
				continue // never written outside init: keeps its value
			}
			srt := ex.compSort(k)
			st.heap[k] = vc.fresh("Hh_"+trimCompPrefix(k)+"_"+tag, srt)
		}
		for k := range st.ghost {
			if k == "$alloc" {
				continue
			}
			st.ghost[k] = vc.fresh("Gh_"+k+"_"+tag, ex.compSort(k))
		}
		vc.counter++
		st.epoch = fmt.Sprintf("%d", vc.counter)
		vc.note("loop/call in %s havocs the whole heap", funcKey(fr.fn))
		return
	}
	var comps []string
	for k := range ms.comps {
		comps = append(comps, k)
	}
	sort.Strings(comps)
	for _, k := range comps {
		h := ex.heapGet(st, k, ms.comps[k])
		if refs, ok := ex.targetRefs(fr, st, ms, ms.compAt[k], ms.whole[k]); ok {
			// written only at known objects (defined before the loop): everything else keeps its value
			for _, r := range refs {
				nv := ex.havocValue(st, "hv_"+tag, ms.comps[k])
				h = vc.define("H_"+k, ex.compSort(k), sx("store", h, r, nv.S))
			}
			st.heap[k] = h
			continue
		}
		st.heap[k] = vc.fresh("Hh_"+k+"_"+tag, ex.compSort(k))
	}
	for k := range ms.ghosts {
		if _, known := vc.heapT[k]; !known {
			continue // never read in this function: nothing to forget
		}
		st.ghost[k] = vc.fresh("Gh_"+mangle(trimCompPrefix(k))+"_"+tag, ex.compSort(k))
	}
	for g := range ms.globals {
		ex.globalGet(st, g)
		comp := "G:" + relPkgPath(g.Pkg.Pkg) + "." + g.Name()
		st.heap[comp] = ex.havocValue(st, "Gh_"+g.Name()+"_"+tag, g.Type().(*types.Pointer).Elem()).S
	}
	for _, nx := range ms.nexts {
		if fr == nil {
			continue
		}
		if it, ok := fr.vals[nx.Iter].(mapIter); ok {
			st.ghost[it.seen] = vc.fresh("seen_"+tag, ex.compSort(it.seen))
		}
	}
	var mks []string
	for k := range ms.maps {
		mks = append(mks, k)
	}
	sort.Strings(mks)
	for _, k := range mks {
		if refs, ok := ex.targetRefs(fr, st, ms, ms.mapAt[k], ms.whole[k]); ok {
			mc := ex.mapCompsOf(ms.maps[k])
			for _, c := range []string{mc.has, mc.val, mc.ln} {
				h := ex.mapHeap(st, c)
				for _, r := range refs {
					nv := vc.fresh("mh_"+tag, ex.vc.heapT[c].sort)
					h = vc.define("Mx", ex.compSort(c), sx("store", h, r, nv))
				}
				st.heap[c] = h
			}
			continue
		}
		if !ms.whole[k] && ms.loop != nil && len(ms.mapAt[k]) > 0 && fr != nil && !ms.allCell {
			// every write of this map type inside the loop goes either to a map made inside the loop or to a map
			// denoted by a loop-invariant expression: the other maps that existed when the loop was entered keep
			// their contents
			var stable []string
			okAll := true
			for _, b := range ms.mapAt[k] {
				if loopFresh(b, ms.loop) {
					continue
				}
				v, ok := ex.stableValue(fr, st, ms, b, 0)
				t, isT := v.(Term)
				if !ok || !isT {
					okAll = false
					break
				}
				stable = append(stable, t.S)
			}
			if okAll {
				al := ex.allocSet(st)
				mc := ex.mapCompsOf(ms.maps[k])
				for _, c := range []string{mc.has, mc.val, mc.ln} {
					old := ex.mapHeap(st, c)
					nw := vc.fresh("Mx_"+tag, ex.compSort(c))
					st.heap[c] = nw
					cond := sx("select", al, "qr!")
					for _, r := range stable {
						cond = sAnd(cond, sNot(sEq("qr!", r)))
					}
					ex.assume(st, fmt.Sprintf("(forall ((qr! Int)) (! (=> %s (= (select %s qr!) (select %s qr!))) :pattern ((select %s qr!))))", cond, nw, old, nw))
				}
				continue
			}
		}
		ex.havocMapType(st, ms.maps[k], tag)
	}
}

func blockPos(b *ssa.BasicBlock) token.Pos {
	for _, in := range b.Instrs {
		if p := in.Pos(); p.IsValid() {
			return p
		}
	}
	return token.NoPos
}

// allLoopFresh: is every one of these map values made inside the loop? Either a make in a loop block, or a load of a
// local that is declared inside the loop and only ever assigned such makes.
func allLoopFresh(bases []ssa.Value, li *loopInfo) bool {
	for _, b := range bases {
		if !loopFresh(b, li) {
			return false
		}
	}
	return true
}

// freshResultCall is set by the program loader: does this call's static callee carry 'opt freshresult'?
var freshResultCall func(*ssa.Call) bool

func loopFresh(b ssa.Value, li *loopInfo) bool {
	switch x := b.(type) {
	case *ssa.MakeMap:
		return li.blocks[x.Block()]
	case *ssa.UnOp:
		if x.Op != token.MUL {
			return false
		}
		a, ok := x.X.(*ssa.Alloc)
		if !ok || a.Heap || !li.blocks[a.Block()] || a.Referrers() == nil {
			return false
		}
		for _, r := range *a.Referrers() {
			switch y := r.(type) {
			case *ssa.Store:
				if y.Addr != a {
					return false // the address itself is stored somewhere
				}
				if cl, isCall := y.Val.(*ssa.Call); isCall && li.blocks[cl.Block()] && freshResultCall != nil && freshResultCall(cl) {
					continue // result of a callee whose contract says it returns a newly made map
				}
				mk, isMake := y.Val.(*ssa.MakeMap)
				if !isMake || !li.blocks[mk.Block()] {
					return false
				}
			case *ssa.UnOp, *ssa.DebugRef:
			default:
				return false
			}
		}
		return true
	}
	return false
}

// isHeapAlloc: does this Alloc denote a heap object addressed by reference (vs. a local cell)?
func (ex *Exec) isHeapAlloc(a *ssa.Alloc) bool {
	et := a.Type().(*types.Pointer).Elem()
	if _, ok := et.Underlying().(*types.Struct); !ok {
		return false
	}
	if !a.Heap {
		return false
	}
	refs := a.Referrers()
	if refs == nil {
		return false
	}
	for _, r := range *refs {
		switch x := r.(type) {
		case *ssa.FieldAddr, *ssa.DebugRef, *ssa.MakeClosure:
		case *ssa.UnOp:
		case *ssa.Store:
			if x.Val == a {
				return true
			}
		default:
			return true
		}
	}
	return false
}

// rangeIndexFact recognises the header of a lowered "for range slice" loop
//
//	t1 = *rangeindex; t2 = t1 + 1; *rangeindex = t2; t3 = t2 < tLen; if t3 ...
//
// and assumes -1 <= rangeindex < max(len, 0) (or rangeindex == -1) at the loop head.
func (ex *Exec) rangeIndexFact(fr *Frame, li *loopInfo, st *State) {
	ins := li.header.Instrs
	if len(ins) < 5 {
		return
	}
	ld, ok := ins[0].(*ssa.UnOp)
	if !ok || ld.Op != token.MUL {
		return
	}
	a, ok := ld.X.(*ssa.Alloc)
	if !ok || a.Comment != "rangeindex" {
		return
	}
	cmp, ok := ins[3].(*ssa.BinOp)
	if !ok || cmp.Op != token.LSS {
		return
	}
	lv, ok := fr.vals[cmp.Y].(Term)
	if !ok {
		return
	}
	cur, ok := st.cells[a].(Term)
	if !ok {
		return
	}
	ex.assume(st, sAnd(sx("<=", "(- 1)", cur.S), sOr(sx("<", cur.S, lv.S), sEq(cur.S, "(- 1)"))))
}

// targetRefs: the references behind base values that were all computed before the loop (so that they denote
// the same objects in every iteration). ok is false when some write goes through an unknown base.
func (ex *Exec) targetRefs(fr *Frame, st *State, ms *modSet, bases []ssa.Value, whole bool) ([]string, bool) {
	if whole || len(bases) == 0 || fr == nil || ms.allCell {
		return nil, false
	}
	seen := map[string]bool{}
	var out []string
	for _, b := range bases {
		v, ok := ex.stableValue(fr, st, ms, b, 0)
		if !ok {
			return nil, false // defined inside the loop
		}
		t, ok := v.(Term)
		if !ok {
			return nil, false
		}
		if !seen[t.S] {
			seen[t.S] = true
			out = append(out, t.S)
		}
	}
	return out, true
}

// stableValue: the value of an SSA expression that denotes the same object in every iteration of the loop being
// havocked: computed before the loop, a load from a local the loop never assigns, or a load from a field (that the
// loop never writes) of such an object.
func (ex *Exec) stableValue(fr *Frame, st *State, ms *modSet, b ssa.Value, depth int) (Value, bool) {
	if v, ok := fr.vals[b]; ok {
		return v, true
	}
	if depth > 4 || ms.allHeap {
		return nil, false
	}
	u, isLoad := b.(*ssa.UnOp)
	if !isLoad || u.Op != token.MUL {
		return nil, false
	}
	switch x := u.X.(type) {
	case *ssa.Alloc:
		if !ms.cells[x] && !ms.allCell && !ex.isHeapAlloc(x) {
			if cv, has := st.cells[x]; has {
				return cv, true
			}
		}
	case *ssa.FieldAddr:
		base, ok := ex.stableValue(fr, st, ms, x.X, depth+1)
		if !ok {
			return nil, false
		}
		bt, ok := base.(Term)
		if !ok {
			return nil, false
		}
		pt, isPtr := x.X.Type().Underlying().(*types.Pointer)
		if !isPtr {
			return nil, false
		}
		comp, ft := ex.heapCompName(pt.Elem(), x.Field)
		if _, written := ms.comps[comp]; written {
			return nil, false
		}
		return Term{S: sx("select", ex.heapGet(st, comp, ft), bt.S), T: ft}, true
	}
	return nil, false
}

// readOnlyPointerCell: every value loaded from the cell is only dereferenced for reading (loads, field/index reads),
// compared, passed to calls or stored as a value - never used as the target of a store.
func readOnlyPointerCell(a *ssa.Alloc) bool {
	if a.Referrers() == nil {
		return false
	}
	var writesThrough func(v ssa.Value, depth int) bool
	writesThrough = func(v ssa.Value, depth int) bool {
		if depth > 6 || v.Referrers() == nil {
			return depth > 6
		}
		for _, r := range *v.Referrers() {
			switch x := r.(type) {
			case *ssa.Store:
				if x.Addr == v {
					return true
				}
			case *ssa.FieldAddr:
				if writesThrough(x, depth+1) {
					return true
				}
			case *ssa.IndexAddr:
				if writesThrough(x, depth+1) {
					return true
				}
			case *ssa.MapUpdate:
				if x.Map == v {
					return true
				}
			}
		}
		return false
	}
	for _, r := range *a.Referrers() {
		if ld, ok := r.(*ssa.UnOp); ok && ld.Op == token.MUL {
			if writesThrough(ld, 0) {
				return false
			}
		}
	}
	return true
}
