package main

// Instruction semantics.

import (
	"fmt"
	"go/constant"
	"go/token"
	"go/types"
	"math/big"
	"strconv"
	"strings"

	"golang.org/x/tools/go/ssa"
)

func (ex *Exec) operand(fr *Frame, st *State, v ssa.Value) Value {
	switch x := v.(type) {
	case *ssa.Const:
		return ex.constant(x)
	case *ssa.Function:
		return FnRef{x}
	case *ssa.Global:
		et := x.Type().(*types.Pointer).Elem()
		return Ptr{Location{Root: GlobalRoot{x}, T: et, RT: et}}
	case *ssa.Builtin:
		return x
	}
	if val, ok := fr.vals[v]; ok {
		if p, isP := val.(poison); isP {
			panic(unsupported(p.why))
		}
		return val
	}
	panic(unsupported(fmt.Sprintf("no value for %s (%T) in %s", v.Name(), v, fr.fn.Name())))
}

func (ex *Exec) constant(c *ssa.Const) Value {
	tc := ex.vc.tc
	t := c.Type()
	if c.Value == nil {
		// zero value / nil
		switch t.Underlying().(type) {
		case *types.Pointer, *types.Map, *types.Chan, *types.Signature:
			return Term{S: "0", T: t}
		}
		return Term{S: tc.zero(t), T: t}
	}
	switch {
	case isBoolType(t):
		if constant.BoolVal(c.Value) {
			return Term{S: "true", T: t}
		}
		return Term{S: "false", T: t}
	case isIntType(t):
		b, ok := constToBig(c.Value)
		if !ok {
			panic(unsupported("integer constant " + c.Value.String()))
		}
		return Term{S: tc.intLit(b, t), T: t}
	case isStringType(t):
		return Term{S: tc.strLit(constant.StringVal(c.Value)), T: t}
	case isFloatType(t):
		tc.usesF64 = true
		f, _ := constant.Float64Val(c.Value)
		if f == 0 {
			return Term{S: "f64_zero", T: t}
		}
		name := "f64lit_" + mangle(fmt.Sprint(f))
		ex.vc.declareConst(name, "F64")
		return Term{S: name, T: t}
	}
	panic(unsupported("constant of type " + t.String()))
}

func (ex *Exec) term(fr *Frame, st *State, v ssa.Value) Term {
	val := ex.operand(fr, st, v)
	return ex.asTerm(val, v.Type())
}

func (ex *Exec) block(fr *Frame, b *ssa.BasicBlock, st *State, incoming map[*ssa.BasicBlock][]edgeState) {
	for _, in := range b.Instrs {
		switch x := in.(type) {
		case *ssa.Phi, *ssa.DebugRef:
			continue
		case *ssa.If:
			c := ex.term(fr, st, x.Cond)
			tS := st.clone()
			ex.assume(tS, c.S)
			fS := st
			ex.assume(fS, sNot(c.S))
			ex.pushEdge(fr, b, b.Succs[0], tS, incoming)
			ex.pushEdge(fr, b, b.Succs[1], fS, incoming)
			return
		case *ssa.Jump:
			ex.pushEdge(fr, b, b.Succs[0], st, incoming)
			return
		case *ssa.Return:
			var vals []Value
			for _, r := range x.Results {
				vals = append(vals, ex.operand(fr, st, r))
			}
			if fr.top && fr.contract != nil {
				ex.returnGuards(fr, st, b, vals, x.Pos())
			}
			fr.rets = append(fr.rets, retInfo{st: st, vals: vals, pos: x.Pos()})
			return
		case *ssa.Panic:
			if fr.top && ex.safety && !ex.panicAllowed(fr) {
				ex.oblige(fr, st, "panic", "false", "explicit panic is unreachable", x.Pos())
			}
			return
		default:
			ex.instr(fr, st, in)
		}
	}
}

func (ex *Exec) panicAllowed(fr *Frame) bool {
	return fr.contract != nil && fr.contract.Opts["allowpanic"] != ""
}

func (ex *Exec) safetyOn(fr *Frame) bool { return fr.top && ex.safety }

func (ex *Exec) instr(fr *Frame, st *State, in ssa.Instruction) {
	tc := ex.vc.tc
	switch x := in.(type) {
	case *ssa.Alloc:
		et := x.Type().(*types.Pointer).Elem()
		if ex.isHeapAlloc(x) {
			ref := ex.allocRef(st, et, x.Comment)
			fr.vals[x] = Term{S: ref, T: x.Type()}
			return
		}
		st.cells[x] = ex.zeroValue(et)
		fr.vals[x] = Ptr{Location{Root: CellRoot{x}, T: et, RT: et}}
	case *ssa.Store:
		addr := ex.operand(fr, st, x.Addr)
		val := ex.operand(fr, st, x.Val)
		switch a := addr.(type) {
		case Ptr:
			if g, isG := a.Loc.Root.(GlobalRoot); isG {
				ex.checkGuards(fr, st, "write", g.G.Name(), x.Pos())
			}
			ex.store(st, a.Loc, val)
		case Term:
			// *ref = structValue
			et := x.Addr.Type().Underlying().(*types.Pointer).Elem()
			if _, ok := et.Underlying().(*types.Struct); !ok {
				ex.nilCheck(fr, st, a.S, x.Pos())
				comp := "ptr:" + mangle(et.String())
				h := ex.heapGet(st, comp, et)
				st.heap[comp] = ex.vc.define("H_ptr", sx("Array", "Int", ex.vc.tc.sortOf(et)), sx("store", h, a.S, ex.asTerm(val, et).S))
				return
			}
			ex.nilCheck(fr, st, a.S, x.Pos())
			ex.storeStructAt(st, a.S, et, ex.asTerm(val, et))
		default:
			panic(unsupported(fmt.Sprintf("store to %T", addr)))
		}
	case *ssa.UnOp:
		fr.vals[x] = ex.unop(fr, st, x)
	case *ssa.BinOp:
		fr.vals[x] = ex.binop(fr, st, x)
	case *ssa.FieldAddr:
		base := ex.operand(fr, st, x.X)
		stT := x.X.Type().Underlying().(*types.Pointer).Elem()
		ft := stT.Underlying().(*types.Struct).Field(x.Field).Type()
		switch b := base.(type) {
		case Ptr:
			fr.vals[x] = Ptr{b.Loc.extend(PathElem{Field: x.Field, CT: stT}, ft)}
		case Term:
			ex.nilCheck(fr, st, b.S, x.Pos())
			comp, _ := ex.heapCompName(stT, x.Field)
			ex.heapGet(st, comp, ft)
			fr.vals[x] = Ptr{Location{Root: HeapRoot{Comp: comp, Ref: b.S}, T: ft, RT: ft}}
		default:
			panic(unsupported(fmt.Sprintf("field address of %T", base)))
		}
	case *ssa.Field:
		base := ex.term(fr, st, x.X)
		si := tc.structInfoOf(x.X.Type())
		f := si.fields[x.Field]
		fr.vals[x] = Term{S: sx(f.sel, base.S), T: f.typ}
	case *ssa.IndexAddr:
		idx := ex.term(fr, st, x.Index)
		idxS := ex.toIdx(idx)
		base := ex.operand(fr, st, x.X)
		switch b := base.(type) {
		case Ptr: // pointer to array
			at := b.Loc.T.Underlying().(*types.Array)
			ex.boundsCheck(fr, st, idxS, tc.idxLit(at.Len()), x.Pos())
			fr.vals[x] = Ptr{b.Loc.extend(PathElem{Field: -1, Index: idxS, CT: b.Loc.T}, at.Elem())}
		case Term:
			sl, ok := b.T.Underlying().(*types.Slice)
			if !ok {
				panic(unsupported("index address into " + b.T.String()))
			}
			so := tc.sortOf(b.T)
			ex.boundsCheck(fr, st, idxS, sx("len_"+so, b.S), x.Pos())
			if b.Org != nil {
				fr.vals[x] = Ptr{b.Org.extend(PathElem{Field: -1, Index: idxS, CT: b.T}, sl.Elem())}
			} else {
				fr.vals[x] = Ptr{Location{Root: ValueRoot{b}, Path: []PathElem{{Field: -1, Index: idxS, CT: b.T}}, T: sl.Elem(), RT: b.T}}
			}
		default:
			panic(unsupported(fmt.Sprintf("index address of %T", base)))
		}
	case *ssa.Index:
		idx := ex.toIdx(ex.term(fr, st, x.Index))
		base := ex.term(fr, st, x.X)
		switch u := x.X.Type().Underlying().(type) {
		case *types.Array:
			ex.boundsCheck(fr, st, idx, tc.idxLit(u.Len()), x.Pos())
			fr.vals[x] = Term{S: sx("select", base.S, idx), T: u.Elem()}
		default:
			if isStringType(x.X.Type()) {
				ex.boundsCheck(fr, st, idx, sx("g_strlen", base.S), x.Pos())
				ex.strAxioms()
				fr.vals[x] = Term{S: sx("g_strat", base.S, idx), T: x.Type()}
				return
			}
			panic(unsupported("index of " + x.X.Type().String()))
		}
	case *ssa.Lookup:
		if isStringType(x.X.Type()) {
			idx := ex.toIdx(ex.term(fr, st, x.Index))
			base := ex.term(fr, st, x.X)
			ex.boundsCheck(fr, st, idx, sx("g_strlen", base.S), x.Pos())
			ex.strAxioms()
			fr.vals[x] = Term{S: sx("g_strat", base.S, idx), T: x.Type()}
			return
		}
		fr.vals[x] = ex.mapLookup(fr, st, x)
	case *ssa.Slice:
		fr.vals[x] = ex.sliceOp(fr, st, x)
	case *ssa.Call:
		fr.vals[x] = ex.call(fr, st, x.Common(), x)
	case *ssa.Extract:
		tup := ex.operand(fr, st, x.Tuple)
		t, ok := tup.(Tuple)
		if !ok {
			panic(unsupported("extract from non-tuple"))
		}
		fr.vals[x] = t.Vs[x.Index]
	case *ssa.MakeInterface:
		v := ex.operand(fr, st, x.X)
		xt := x.X.Type()
		if _, isFn := v.(Closure); isFn {
			fr.vals[x] = Term{S: sx("Dyn_other", "0", ex.vc.fresh("clo", "Int")), T: x.Type()}
			return
		}
		if p, isPtr := v.(Ptr); isPtr {
			// the address of a local escapes into an interface value (fmt.Sscanf(&x), json.Unmarshal(&v), ...):
			// from now on any call may write it
			if cr, ok := p.Loc.Root.(CellRoot); ok {
				if fr.escaped == nil {
					fr.escaped = map[*ssa.Alloc]bool{}
				}
				fr.escaped[cr.A] = true
			}
			fr.vals[x] = Term{S: sx("Dyn_other", "0", ex.vc.fresh("addr", "Int")), T: x.Type()}
			return
		}
		vt := ex.asTerm(v, xt)
		if isInterface(xt) {
			fr.vals[x] = Term{S: vt.S, T: x.Type()}
			return
		}
		if ex.dynRepresentable(xt) {
			fr.vals[x] = Term{S: sx(tc.dynCtor(xt), vt.S), T: x.Type()}
		} else {
			fr.vals[x] = Term{S: sx("Dyn_other", fmt.Sprint(ex.typeID(xt)), ex.vc.fresh("box", "Int")), T: x.Type()}
		}
	case *ssa.ChangeInterface:
		v := ex.term(fr, st, x.X)
		fr.vals[x] = Term{S: v.S, T: x.Type()}
	case *ssa.TypeAssert:
		fr.vals[x] = ex.typeAssert(fr, st, x)
	case *ssa.ChangeType:
		v := ex.operand(fr, st, x.X)
		if t, ok := v.(Term); ok {
			if tc.sortOf(t.T) == tc.sortOf(x.Type()) {
				fr.vals[x] = Term{S: t.S, T: x.Type()}
			} else {
				fr.vals[x] = ex.convertStruct(t, x.Type())
			}
			return
		}
		fr.vals[x] = v
	case *ssa.Convert:
		fr.vals[x] = ex.convert(fr, st, x)
	case *ssa.MakeClosure:
		var binds []Value
		for _, b := range x.Bindings {
			binds = append(binds, ex.operand(fr, st, b))
		}
		fr.vals[x] = Closure{Fn: x.Fn.(*ssa.Function), Binds: binds}
	case *ssa.MakeSlice:
		l := ex.term(fr, st, x.Len)
		ls := ex.toIdx(l)
		if ex.safetyOn(fr) {
			ex.oblige(fr, st, "make", ex.cmpIdx("<=", tc.idxLit(0), ls), "make: length is non-negative", x.Pos())
		}
		so := tc.sortOf(x.Type())
		et := x.Type().Underlying().(*types.Slice).Elem()
		fr.vals[x] = Term{S: sx("mk_"+so, tc.constArray(tc.sortOf(et), tc.zero(et)), ls), T: x.Type()}
	case *ssa.MakeMap:
		fr.vals[x] = ex.makeMap(fr, st, x)
	case *ssa.MapUpdate:
		ex.mapUpdate(fr, st, x)
	case *ssa.Range:
		fr.vals[x] = ex.rangeStart(fr, st, x)
	case *ssa.Next:
		fr.vals[x] = ex.rangeNext(fr, st, x)
	case *ssa.RunDefers:
		ex.runDefers(fr, st)
	case *ssa.Defer:
		fr.defers = append(fr.defers, x)
	case *ssa.Go:
		panic(unsupported("go statement"))
	case *ssa.Send, *ssa.Select:
		panic(unsupported("channel operation"))
	default:
		panic(unsupported(fmt.Sprintf("instruction %T", in)))
	}
}

func (ex *Exec) typeID(t types.Type) int {
	k := t.String()
	if id, ok := ex.vc.tc.typeIDs[k]; ok {
		return id
	}
	id := len(ex.vc.tc.typeIDs) + 1
	ex.vc.tc.typeIDs[k] = id
	return id
}

// dynRepresentable: concrete types given their own Dyn constructor (module types and basic types).
func (ex *Exec) dynRepresentable(t types.Type) bool {
	switch u := types.Unalias(t).(type) {
	case *types.Named:
		if u.Obj().Pkg() == nil {
			return false
		}
		return ex.prog.typesPkgs[u.Obj().Pkg().Path()] != nil && len(u.Obj().Pkg().Path()) >= len(modPrefix) && u.Obj().Pkg().Path()[:len(modPrefix)] == modPrefix
	case *types.Pointer:
		return ex.dynRepresentable(u.Elem())
	case *types.Basic:
		return true
	}
	return false
}

func (ex *Exec) allocRef(st *State, et types.Type, hint string) string {
	vc := ex.vc
	r := vc.fresh("ref_"+hint, "Int")
	al := ex.allocSet(st)
	ex.assume(st, sAnd(sx(">", r, "0"), sNot(sx("select", al, r))))
	st.ghost["$alloc"] = vc.define("alloc", "(Array Int Bool)", sx("store", al, r, "true"))
	// zero-initialise fields
	if s, ok := et.Underlying().(*types.Struct); ok {
		for i := 0; i < s.NumFields(); i++ {
			comp, ft := ex.heapCompName(et, i)
			h := ex.heapGet(st, comp, ft)
			st.heap[comp] = vc.define("H_"+comp, sx("Array", "Int", vc.tc.sortOf(ft)), sx("store", h, r, vc.tc.zero(ft)))
		}
	}
	return r
}

func (ex *Exec) allocSet(st *State) string {
	if a, ok := st.ghost["$alloc"]; ok {
		return a
	}
	ex.vc.heapT["$alloc"] = heapComp{sort: "(Array Int Bool)"}
	ex.vc.declareConst("G0_xalloc", "(Array Int Bool)")
	st.ghost["$alloc"] = "G0_xalloc"
	return "G0_xalloc"
}

// refLoaded: assume a reference obtained from the heap/params is nil or allocated.
func (ex *Exec) refFact(st *State, ref string) {
	ex.assume(st, sOr(sx("=", ref, "0"), sx("select", ex.allocSet(st), ref)))
}

func (ex *Exec) nilCheck(fr *Frame, st *State, ref string, pos token.Pos) {
	if ex.safetyOn(fr) {
		ex.oblige(fr, st, "nil", sNot(sx("=", ref, "0")), "nil dereference", pos)
	}
	// after a dereference the reference is non-nil on the continuing path
	ex.assume(st, sNot(sx("=", ref, "0")))
}

func (ex *Exec) toIdx(t Term) string {
	// index expressions may be of any integer type; normalise to the (mathematical) index sort
	if ex.vc.tc.isBV(t.T) {
		return ex.bvToInt(t.S, widthOf(t.T), isSigned(t.T))
	}
	return t.S
}

func (ex *Exec) bvToInt(s string, w int, signed bool) string {
	if !signed {
		return sx("bv2nat", s)
	}
	m := new(big.Int).Lsh(big.NewInt(1), uint(w)).String()
	return sIte(sx("bvslt", s, fmt.Sprintf("(_ bv0 %d)", w)), sx("-", sx("bv2nat", s), m), sx("bv2nat", s))
}

func (ex *Exec) cmpIdx(op, a, b string) string { return sx(op, a, b) }

func (ex *Exec) boundsCheck(fr *Frame, st *State, idx, length string, pos token.Pos) {
	g := sAnd(ex.cmpIdx("<=", ex.vc.tc.idxLit(0), idx), ex.cmpIdx("<", idx, length))
	if ex.safetyOn(fr) {
		ex.oblige(fr, st, "index", g, "index in range", pos)
	}
	// execution continues only if the index was in range
	ex.assume(st, g)
}

func (ex *Exec) unop(fr *Frame, st *State, x *ssa.UnOp) Value {
	tc := ex.vc.tc
	switch x.Op {
	case token.MUL: // load
		addr := ex.operand(fr, st, x.X)
		switch a := addr.(type) {
		case Ptr:
			if g, isG := a.Loc.Root.(GlobalRoot); isG {
				ex.checkGuards(fr, st, "read", g.G.Name(), x.Pos())
			}
			v := ex.load(st, a.Loc)
			if t, ok := v.(Term); ok {
				if _, isHeap := a.Loc.Root.(HeapRoot); isHeap {
					ex.loadedFacts(st, t)
				} else if _, isG := a.Loc.Root.(GlobalRoot); isG {
					ex.loadedFacts(st, t)
				} else if isInterface(t.T) && len(a.Loc.Path) > 0 {
					ex.typeFacts(st, t.S, t.T)
				}
			}
			return v
		case Term:
			et := x.X.Type().Underlying().(*types.Pointer).Elem()
			if _, ok := et.Underlying().(*types.Struct); !ok {
				// pointer to a non-struct value: one heap component per pointee type
				ex.nilCheck(fr, st, a.S, x.Pos())
				comp := "ptr:" + mangle(et.String())
				h := ex.heapGet(st, comp, et)
				v := Term{S: sx("select", h, a.S), T: et}
				ex.loadedFacts(st, v)
				return v
			}
			ex.nilCheck(fr, st, a.S, x.Pos())
			return ex.loadStructAt(st, a.S, et)
		}
		panic(unsupported(fmt.Sprintf("load from %T", addr)))
	case token.NOT:
		v := ex.term(fr, st, x.X)
		return Term{S: sNot(v.S), T: x.Type()}
	case token.SUB:
		v := ex.term(fr, st, x.X)
		if isFloatType(x.Type()) {
			ex.vc.declareFun("f64_neg", "(F64)", "F64")
			return Term{S: sx("f64_neg", v.S), T: x.Type()}
		}
		if tc.isBV(x.Type()) {
			return Term{S: sx("bvneg", v.S), T: x.Type()}
		}
		r := Term{S: sx("-", v.S), T: x.Type()}
		ex.overflowCheck(fr, st, r, x.Pos())
		return r
	case token.XOR:
		v := ex.term(fr, st, x.X)
		if tc.isBV(x.Type()) {
			return Term{S: sx("bvnot", v.S), T: x.Type()}
		}
		if isSigned(x.Type()) {
			return Term{S: sx("-", sx("-", v.S), "1"), T: x.Type()}
		}
		return ex.havocValue(st, "bitnot", x.Type())
	}
	_ = tc
	panic(unsupported("unary operator " + x.Op.String()))
}

// loadedFacts: assumptions about a value read from the heap or a global (machine ranges, allocatedness).
func (ex *Exec) loadedFacts(st *State, t Term) {
	switch t.T.Underlying().(type) {
	case *types.Pointer, *types.Map:
		ex.refFact(st, t.S)
		return
	case *types.Interface:
		ex.typeFacts(st, t.S, t.T)
		return
	}
	if f := ex.rangeFact(t.S, t.T, 1); f != "true" {
		ex.assume(st, f)
	}
}

func (ex *Exec) overflowCheck(fr *Frame, st *State, r Term, pos token.Pos) {
	if ex.vc.tc.isBV(r.T) || !isIntType(r.T) {
		return
	}
	if !ex.safetyOn(fr) || (fr.contract != nil && fr.contract.NoOvf) {
		return
	}
	lo, hi := intRange(widthOf(r.T), isSigned(r.T))
	ex.oblige(fr, st, "overflow", sAnd(sx("<=", lo, r.S), sx("<=", r.S, hi)), "no integer overflow", pos)
}

func (ex *Exec) binop(fr *Frame, st *State, x *ssa.BinOp) Value {
	a := ex.operand(fr, st, x.X)
	b := ex.operand(fr, st, x.Y)
	xt := x.X.Type()
	// pointer comparisons
	if pa, ok := a.(Ptr); ok {
		_ = pa
		switch x.Op {
		case token.EQL:
			if _, ok := b.(Ptr); ok {
				return Term{S: boolLit(sameValue(a, b)), T: x.Type()}
			}
			return Term{S: "false", T: x.Type()}
		case token.NEQ:
			if _, ok := b.(Ptr); ok {
				return Term{S: boolLit(!sameValue(a, b)), T: x.Type()}
			}
			return Term{S: "true", T: x.Type()}
		}
	}
	if _, ok := b.(Ptr); ok {
		switch x.Op {
		case token.EQL:
			return Term{S: "false", T: x.Type()}
		case token.NEQ:
			return Term{S: "true", T: x.Type()}
		}
	}
	// function values compared with nil
	switch a.(type) {
	case Closure, FnRef:
		if x.Op == token.EQL {
			return Term{S: "false", T: x.Type()}
		}
		return Term{S: "true", T: x.Type()}
	}
	at := ex.asTerm(a, xt)
	bt := ex.asTerm(b, x.Y.Type())
	return ex.binopTerms(fr, st, x.Op, at, bt, xt, x.Type(), x.Pos())
}

func boolLit(b bool) string {
	if b {
		return "true"
	}
	return "false"
}

func (ex *Exec) binopTerms(fr *Frame, st *State, op token.Token, a, b Term, xt, rt types.Type, pos token.Pos) Term {
	vc := ex.vc
	switch {
	case isIntType(xt):
		signed := isSigned(xt)
		if vc.tc.isBV(xt) {
			var s string
			switch op {
			case token.ADD:
				s = sx("bvadd", a.S, b.S)
			case token.SUB:
				s = sx("bvsub", a.S, b.S)
			case token.MUL:
				s = ex.nonlinear("bvmul", a.S, b.S, widthOf(xt))
			case token.QUO:
				ex.divCheck(fr, st, b, pos)
				if signed {
					s = ex.nonlinear("bvsdiv", a.S, b.S, widthOf(xt))
				} else {
					s = ex.nonlinear("bvudiv", a.S, b.S, widthOf(xt))
				}
			case token.REM:
				ex.divCheck(fr, st, b, pos)
				if signed {
					s = ex.nonlinear("bvsrem", a.S, b.S, widthOf(xt))
				} else {
					s = ex.nonlinear("bvurem", a.S, b.S, widthOf(xt))
				}
			case token.AND:
				s = sx("bvand", a.S, b.S)
			case token.OR:
				s = sx("bvor", a.S, b.S)
			case token.XOR:
				s = sx("bvxor", a.S, b.S)
			case token.AND_NOT:
				s = sx("bvand", a.S, sx("bvnot", b.S))
			case token.SHL, token.SHR:
				// shift count may have a different width: resize to operand width
				var cnt string
				if vc.tc.isBV(b.T) {
					cnt = ex.resizeBV(b.S, widthOf(b.T), widthOf(xt), false)
				} else {
					cnt = sx(fmt.Sprintf("(_ int2bv %d)", widthOf(xt)), b.S)
				}
				if op == token.SHL {
					s = sx("bvshl", a.S, cnt)
				} else if signed {
					s = sx("bvashr", a.S, cnt)
				} else {
					s = sx("bvlshr", a.S, cnt)
				}
			case token.EQL:
				return Term{S: sEq(a.S, b.S), T: rt}
			case token.NEQ:
				return Term{S: sNot(sEq(a.S, b.S)), T: rt}
			case token.LSS, token.LEQ, token.GTR, token.GEQ:
				m := map[token.Token][2]string{token.LSS: {"bvslt", "bvult"}, token.LEQ: {"bvsle", "bvule"}, token.GTR: {"bvsgt", "bvugt"}, token.GEQ: {"bvsge", "bvuge"}}
				o := m[op][1]
				if signed {
					o = m[op][0]
				}
				return Term{S: sx(o, a.S, b.S), T: rt}
			default:
				panic(unsupported("bv operator " + op.String()))
			}
			return Term{S: s, T: rt}
		}
		var s string
		switch op {
		case token.ADD:
			s = sx("+", a.S, b.S)
		case token.SUB:
			s = sx("-", a.S, b.S)
		case token.MUL:
			s = sx("*", a.S, b.S)
		case token.QUO:
			ex.divCheck(fr, st, b, pos)
			s = sx("g_tdiv", a.S, b.S)
		case token.REM:
			ex.divCheck(fr, st, b, pos)
			s = sx("g_trem", a.S, b.S)
		case token.AND:
			s = sx("g_bitand", a.S, b.S)
		case token.OR:
			s = sx("g_bitor", a.S, b.S)
		case token.XOR:
			s = sx("g_bitxor", a.S, b.S)
		case token.SHL, token.SHR:
			cnt := b.S
			if vc.tc.isBV(b.T) {
				cnt = ex.bvToInt(b.S, widthOf(b.T), isSigned(b.T))
				if strings.HasPrefix(b.S, "(_ bv") {
					cnt = strings.Fields(b.S[5:])[0]
				}
			}
			if k, err := strconv.Atoi(cnt); err == nil && k >= 0 && k < 62 {
				// shift by a constant on mathematical integers: exact multiplication / flooring division
				p := new(big.Int).Lsh(big.NewInt(1), uint(k)).String()
				if op == token.SHL {
					r := Term{S: vc.define("ar", "Int", sx("*", a.S, p)), T: rt}
					ex.overflowCheck(fr, st, r, pos)
					return r
				}
				return Term{S: vc.define("ar", "Int", sx("div", a.S, p)), T: rt}
			}
			if op == token.SHL {
				s = sx("g_shl", a.S, cnt)
			} else {
				s = sx("g_shr", a.S, cnt)
			}
		case token.EQL:
			return Term{S: sEq(a.S, b.S), T: rt}
		case token.NEQ:
			return Term{S: sNot(sEq(a.S, b.S)), T: rt}
		case token.LSS:
			return Term{S: sx("<", a.S, b.S), T: rt}
		case token.LEQ:
			return Term{S: sx("<=", a.S, b.S), T: rt}
		case token.GTR:
			return Term{S: sx(">", a.S, b.S), T: rt}
		case token.GEQ:
			return Term{S: sx(">=", a.S, b.S), T: rt}
		default:
			panic(unsupported("int operator " + op.String()))
		}
		r := Term{S: vc.define("ar", "Int", s), T: rt}
		switch op {
		case token.ADD, token.SUB, token.MUL, token.QUO:
			ex.overflowCheck(fr, st, r, pos)
		case token.AND, token.OR, token.XOR, token.SHL, token.SHR:
			ex.assume(st, ex.rangeFact(r.S, rt, 0))
			vc.note("bit operation %s on mathematical integers is uninterpreted in %s", op, funcKey(fr.fn))
		}
		return r
	case isStringType(xt):
		switch op {
		case token.EQL:
			return Term{S: sEq(a.S, b.S), T: rt}
		case token.NEQ:
			return Term{S: sNot(sEq(a.S, b.S)), T: rt}
		case token.ADD:
			ex.strAxioms()
			return Term{S: sx("g_concat", a.S, b.S), T: rt}
		case token.LSS:
			ex.strAxioms()
			return Term{S: sx("g_strlt", a.S, b.S), T: rt}
		case token.GTR:
			ex.strAxioms()
			return Term{S: sx("g_strlt", b.S, a.S), T: rt}
		case token.LEQ:
			return Term{S: sNot(sx("g_strlt", b.S, a.S)), T: rt}
		case token.GEQ:
			return Term{S: sNot(sx("g_strlt", a.S, b.S)), T: rt}
		}
	case isFloatType(xt):
		name := "f64_" + map[token.Token]string{token.ADD: "add", token.SUB: "sub", token.MUL: "mul", token.QUO: "div", token.LSS: "lt", token.LEQ: "le", token.GTR: "gt", token.GEQ: "ge", token.EQL: "eq", token.NEQ: "ne"}[op]
		switch op {
		case token.ADD, token.SUB, token.MUL, token.QUO:
			vc.declareFun(name, "(F64 F64)", "F64")
		default:
			vc.declareFun(name, "(F64 F64)", "Bool")
		}
		vc.note("floating point operation %s is uninterpreted", op)
		return Term{S: sx(name, a.S, b.S), T: rt}
	default:
		switch op {
		case token.EQL:
			return Term{S: sEq(a.S, b.S), T: rt}
		case token.NEQ:
			return Term{S: sNot(sEq(a.S, b.S)), T: rt}
		case token.LAND:
			return Term{S: sAnd(a.S, b.S), T: rt}
		case token.LOR:
			return Term{S: sOr(a.S, b.S), T: rt}
		}
	}
	panic(unsupported(fmt.Sprintf("operator %s on %s", op, xt)))
}

// nonlinear: bit-vector * / % with two symbolic operands are emitted as uninterpreted functions shared
// by code and specification (plus a few true facts about them); with a literal operand they are interpreted.
func (ex *Exec) nonlinear(op, a, b string, w int) string {
	isLit := func(s string) bool { return strings.HasPrefix(s, "(_ bv") }
	if ex.interpretNL || isLit(a) || isLit(b) {
		return sx(op, a, b)
	}
	vc := ex.vc
	name := fmt.Sprintf("g_%s%d", op[2:], w)
	bvs := fmt.Sprintf("(_ BitVec %d)", w)
	vc.declareFun(name, "("+bvs+" "+bvs+")", bvs)
	zero, one := fmt.Sprintf("(_ bv0 %d)", w), fmt.Sprintf("(_ bv1 %d)", w)
	q := func(body string) string {
		return fmt.Sprintf("(forall ((x %s)) (! %s :pattern (%s)))", bvs, body, "PAT")
	}
	_ = q
	ax := func(id, pat, body string) {
		vc.addAxiom(name+"_"+id, fmt.Sprintf("(forall ((x %s)) (! %s :pattern (%s)))", bvs, body, pat), name)
	}
	switch op {
	case "bvmul":
		ax("zl", sx(name, zero, "x"), sEq(sx(name, zero, "x"), zero))
		ax("zr", sx(name, "x", zero), sEq(sx(name, "x", zero), zero))
		ax("ol", sx(name, one, "x"), sEq(sx(name, one, "x"), "x"))
		ax("or", sx(name, "x", one), sEq(sx(name, "x", one), "x"))
	case "bvsdiv", "bvudiv":
		ax("zl", sx(name, zero, "x"), sImp(sNot(sEq("x", zero)), sEq(sx(name, zero, "x"), zero)))
		ax("or", sx(name, "x", one), sEq(sx(name, "x", one), "x"))
	case "bvsrem", "bvurem":
		ax("zl", sx(name, zero, "x"), sImp(sNot(sEq("x", zero)), sEq(sx(name, zero, "x"), zero)))
		ax("or", sx(name, "x", one), sEq(sx(name, "x", one), zero))
	}
	vc.note("bit-vector %s with two symbolic operands is an uninterpreted function (zero/one laws assumed)", op)
	return sx(name, a, b)
}

func (ex *Exec) resizeBV(s string, from, to int, signed bool) string {
	if from == to {
		return s
	}
	if from > to {
		return sx(fmt.Sprintf("(_ extract %d 0)", to-1), s)
	}
	if signed {
		return sx(fmt.Sprintf("(_ sign_extend %d)", to-from), s)
	}
	return sx(fmt.Sprintf("(_ zero_extend %d)", to-from), s)
}

func (ex *Exec) divCheck(fr *Frame, st *State, b Term, pos token.Pos) {
	g := sNot(sEq(b.S, ex.vc.tc.intLit64(0, b.T)))
	if ex.safetyOn(fr) {
		ex.oblige(fr, st, "div", g, "division by zero", pos)
	}
	ex.assume(st, g)
}

func (ex *Exec) convert(fr *Frame, st *State, x *ssa.Convert) Value {
	v := ex.term(fr, st, x.X)
	from, to := x.X.Type(), x.Type()
	switch {
	case isIntType(from) && isIntType(to):
		fw, tw := widthOf(from), widthOf(to)
		fbv, tbv := ex.vc.tc.isBV(from), ex.vc.tc.isBV(to)
		switch {
		case fbv && tbv:
			return Term{S: ex.resizeBV(v.S, fw, tw, isSigned(from)), T: to}
		case fbv && !tbv:
			return Term{S: ex.vc.define("cv", "Int", ex.bvToInt(v.S, fw, isSigned(from))), T: to}
		case !fbv && tbv:
			return Term{S: sx(fmt.Sprintf("(_ int2bv %d)", tw), v.S), T: to}
		}
		lo, hi := intRange(tw, isSigned(to))
		flo, fhi := intRange(fw, isSigned(from))
		if rangeWithin(flo, fhi, lo, hi) {
			return Term{S: v.S, T: to}
		}
		// wrap-around conversion on mathematical integers
		m := new(big.Int).Lsh(big.NewInt(1), uint(tw)).String()
		if isSigned(to) {
			half := new(big.Int).Lsh(big.NewInt(1), uint(tw-1)).String()
			return Term{S: ex.vc.define("cv", "Int", sx("-", sx("mod", sx("+", v.S, half), m), half)), T: to}
		}
		return Term{S: ex.vc.define("cv", "Int", sx("mod", v.S, m)), T: to}
	case isIntType(from) && isFloatType(to):
		ex.vc.tc.usesF64 = true
		ex.vc.declareFun("f64_of_int", "("+ex.vc.tc.sortOf(from)+")", "F64")
		return Term{S: sx("f64_of_int", v.S), T: to}
	case isFloatType(from) && isIntType(to):
		return ex.havocValue(st, "f2i", to)
	case isFloatType(from) && isFloatType(to):
		return Term{S: v.S, T: to}
	case isStringType(to) && isByteSlice(from):
		// string(bytes): a string with the same length and bytes
		ex.strAxioms()
		arr, ln := ex.sliceParts(v)
		s := ex.vc.fresh("str", "Str")
		ex.assume(st, sEq(sx("g_strlen", s), ln))
		ex.assume(st, fmt.Sprintf("(forall ((qk! Int)) (! (=> (and (<= 0 qk!) (< qk! %s)) (= (g_strat %s qk!) (select %s qk!))) :pattern ((g_strat %s qk!))))", ln, s, arr, s))
		return Term{S: s, T: to}
	case isStringType(to) || isStringType(from):
		ex.vc.note("string/byte-slice conversion is opaque in %s", funcKey(fr.fn))
		return ex.havocValue(st, "strconv", to)
	}
	if ex.vc.tc.sortOf(from) == ex.vc.tc.sortOf(to) {
		return Term{S: v.S, T: to}
	}
	panic(unsupported("conversion " + from.String() + " -> " + to.String()))
}

func isByteSlice(t types.Type) bool {
	sl, ok := t.Underlying().(*types.Slice)
	if !ok {
		return false
	}
	b, ok := sl.Elem().Underlying().(*types.Basic)
	return ok && b.Kind() == types.Uint8
}

func rangeWithin(flo, fhi, lo, hi string) bool {
	p := func(s string) *big.Int {
		neg := false
		if len(s) > 3 && s[0] == '(' {
			neg = true
			s = s[3 : len(s)-1]
		}
		b, _ := new(big.Int).SetString(s, 10)
		if neg {
			b.Neg(b)
		}
		return b
	}
	return p(flo).Cmp(p(lo)) >= 0 && p(fhi).Cmp(p(hi)) <= 0
}

func (ex *Exec) convertStruct(t Term, to types.Type) Term {
	tc := ex.vc.tc
	_, ok1 := t.T.Underlying().(*types.Struct)
	_, ok2 := to.Underlying().(*types.Struct)
	if !ok1 || !ok2 {
		panic(unsupported("change type " + t.T.String() + " -> " + to.String()))
	}
	si, so := tc.structInfoOf(t.T), tc.structInfoOf(to)
	var args []string
	for _, f := range si.fields {
		args = append(args, sx(f.sel, t.S))
	}
	return Term{S: sx(so.ctor, args...), T: to}
}

// lenFacts: the lengths of the slices directly inside a value of type T are non-negative (quantifier-free).
func (ex *Exec) lenFacts(t string, T types.Type) string {
	tc := ex.vc.tc
	switch T.Underlying().(type) {
	case *types.Struct:
		var cs []string
		for _, f := range tc.structInfoOf(T).fields {
			if _, ok := f.typ.Underlying().(*types.Slice); ok {
				cs = append(cs, ex.lenFacts(sx(f.sel, t), f.typ))
			}
		}
		return sAnd(cs...)
	case *types.Slice:
		l := sx("len_"+tc.sortOf(T), t)
		return sAnd(sx("<=", "0", l), sx("<=", l, "4611686018427387904"))
	}
	return "true"
}

func (ex *Exec) typeAssert(fr *Frame, st *State, x *ssa.TypeAssert) Value {
	tc := ex.vc.tc
	v := ex.term(fr, st, x.X)
	at := x.AssertedType
	var ok, val string
	if isInterface(at) {
		// assertion to an interface type: succeeds iff dynamic type implements it
		impls := ex.prog.implementers(at)
		var ds []string
		for _, c := range impls {
			if ex.dynRepresentable(c) {
				ds = append(ds, sx("(_ is "+tc.dynCtor(c)+")", v.S))
			}
		}
		known := sOr(ds...)
		unknown := ex.vc.fresh("implements", "Bool")
		ok = sAnd(sNot(sEq(v.S, "Dyn_nil")), sOr(known, sAnd(sx("(_ is Dyn_other)", v.S), unknown)))
		val = v.S
	} else if ex.dynRepresentable(at) {
		c := tc.dynCtor(at)
		ok = sx("(_ is "+c+")", v.S)
		val = sx("un"+c, v.S)
		// type invariant of the boxed value (slice lengths are non-negative, integers are in their machine range)
		if rf := ex.lenFacts(val, at); rf != "true" {
			ex.assume(st, sx("=>", ok, rf))
		}
	} else {
		id := ex.typeID(at)
		ok = sAnd(sx("(_ is Dyn_other)", v.S), sEq(sx("dyn_tid", v.S), fmt.Sprint(id)))
		val = ex.havocValue(st, "unboxed", at).S
	}
	if x.CommaOk {
		okc := ex.vc.define("taok", "Bool", ok)
		res := sIte(okc, val, tc.zero(at))
		return Tuple{[]Value{Term{S: ex.vc.define("ta", tc.sortOf(at), res), T: at}, Term{S: okc, T: types.Typ[types.Bool]}}}
	}
	if ex.safetyOn(fr) {
		ex.oblige(fr, st, "assert", ok, "type assertion to "+at.String()+" succeeds", x.Pos())
	}
	ex.assume(st, ok)
	return Term{S: ex.vc.define("ta", tc.sortOf(at), val), T: at}
}

func (ex *Exec) sliceOp(fr *Frame, st *State, x *ssa.Slice) Value {
	tc := ex.vc.tc
	base := ex.operand(fr, st, x.X)
	var lo, hi string
	if x.Low != nil {
		lo = ex.toIdx(ex.term(fr, st, x.Low))
	} else {
		lo = tc.idxLit(0)
	}
	if x.Max != nil {
		panic(unsupported("3-index slice"))
	}
	switch b := base.(type) {
	case Ptr: // pointer to array
		at, ok := b.Loc.T.Underlying().(*types.Array)
		if !ok {
			panic(unsupported("slice of pointer to " + b.Loc.T.String()))
		}
		arr := ex.asTerm(ex.load(st, b.Loc), b.Loc.T)
		if x.High != nil {
			hi = ex.toIdx(ex.term(fr, st, x.High))
		} else {
			hi = tc.idxLit(at.Len())
		}
		ex.sliceCheck(fr, st, lo, hi, tc.idxLit(at.Len()), x.Pos())
		so := tc.sortOf(x.Type())
		return Term{S: ex.mkSubslice(so, tc.sortOf(at.Elem()), arr.S, lo, hi), T: x.Type()}
	case Term:
		if isStringType(b.T) {
			ln := sx("g_strlen", b.S)
			if x.High != nil {
				hi = ex.toIdx(ex.term(fr, st, x.High))
			} else {
				hi = ln
			}
			ex.sliceCheck(fr, st, lo, hi, ln, x.Pos())
			ex.strAxioms()
			return Term{S: sx("g_substr", b.S, lo, hi), T: x.Type()}
		}
		sl, ok := b.T.Underlying().(*types.Slice)
		if !ok {
			panic(unsupported("slice of " + b.T.String()))
		}
		so := tc.sortOf(b.T)
		ln := sx("len_"+so, b.S)
		if x.High != nil {
			hi = ex.toIdx(ex.term(fr, st, x.High))
		} else {
			hi = ln
		}
		ex.sliceCheck(fr, st, lo, hi, ln, x.Pos())
		return Term{S: ex.mkSubslice(so, tc.sortOf(sl.Elem()), sx("arr_"+so, b.S), lo, hi), T: x.Type()}
	}
	panic(unsupported(fmt.Sprintf("slice of %T", base)))
}

func (ex *Exec) mkSubslice(so, elemSort, arr, lo, hi string) string {
	vc := ex.vc
	tc := vc.tc
	zero := tc.idxLit(0)
	ln := sx("-", hi, lo)
	if lo == zero {
		return vc.define("sl", so, sx("mk_"+so, arr, hi))
	}
	// shifted array: fresh array with a quantified definition
	na := vc.fresh("shift", sx("Array", tc.idxSort(), elemSort))
	plus := sx("+", "qk!", lo)
	vc.addAxiom("shiftdef_"+na, fmt.Sprintf("(forall ((qk! %s)) (! (= (select %s qk!) (select %s %s)) :pattern ((select %s qk!))))", tc.idxSort(), na, arr, plus, na), na)
	// the same fact, instantiated from an element of the source array (index arithmetic defeats E-matching otherwise)
	minus := sx("-", "qj!", lo)
	vc.addAxiom("shiftdef2_"+na, fmt.Sprintf("(forall ((qj! %s)) (! (= (select %s %s) (select %s qj!)) :pattern ((select %s qj!))))", tc.idxSort(), na, minus, arr, arr), na)
	return vc.define("sl", so, sx("mk_"+so, na, ln))
}

func (ex *Exec) sliceCheck(fr *Frame, st *State, lo, hi, ln string, pos token.Pos) {
	g := sAnd(ex.cmpIdx("<=", ex.vc.tc.idxLit(0), lo), ex.cmpIdx("<=", lo, hi), ex.cmpIdx("<=", hi, ln))
	if ex.safetyOn(fr) {
		ex.oblige(fr, st, "slice", g, "slice bounds in range (length used for capacity)", pos)
	}
}

func (ex *Exec) strAxioms() {
	vc := ex.vc
	vc.tc.strBytes = true
	vc.addAxiom("strlt_irrefl", "(forall ((a Str)) (! (not (g_strlt a a)) :pattern ((g_strlt a a))))", "g_strlt")
	vc.addAxiom("strlt_total", "(forall ((a Str) (b Str)) (! (or (= a b) (g_strlt a b) (g_strlt b a)) :pattern ((g_strlt a b))))", "g_strlt")
	vc.addAxiom("strlt_asym", "(forall ((a Str) (b Str)) (! (not (and (g_strlt a b) (g_strlt b a))) :pattern ((g_strlt a b))))", "g_strlt")
	vc.addAxiom("strlen_nonneg", "(forall ((s Str)) (! (and (>= (g_strlen s) 0) (<= (g_strlen s) 4611686018427387904)) :pattern ((g_strlen s))))", "g_strlen")
	vc.addAxiom("strlen_concat", "(forall ((a Str) (b Str)) (! (= (g_strlen (g_concat a b)) (+ (g_strlen a) (g_strlen b))) :pattern ((g_concat a b))))", "g_concat")
	vc.addAxiom("strlen_substr", "(forall ((s Str) (i Int) (j Int)) (! (=> (and (<= 0 i) (<= i j) (<= j (g_strlen s))) (= (g_strlen (g_substr s i j)) (- j i))) :pattern ((g_substr s i j))))", "g_substr")
	vc.addAxiom("substr_substr", "(forall ((s Str) (a Int) (b Int) (c Int) (d Int)) (! (=> (and (<= 0 a) (<= a b) (<= b (g_strlen s)) (<= 0 c) (<= c d) (<= d (- b a))) (= (g_substr (g_substr s a b) c d) (g_substr s (+ a c) (+ a d)))) :pattern ((g_substr (g_substr s a b) c d))))", "g_substr")
	vc.addAxiom("substr_whole", "(forall ((s Str)) (! (= (g_substr s 0 (g_strlen s)) s) :pattern ((g_substr s 0 (g_strlen s)))))", "g_substr")
	vc.addAxiom("strat_substr", "(forall ((s Str) (i Int) (j Int) (k Int)) (! (=> (and (<= 0 i) (<= i j) (<= j (g_strlen s)) (<= 0 k) (< k (- j i))) (= (g_strat (g_substr s i j) k) (g_strat s (+ i k)))) :pattern ((g_strat (g_substr s i j) k))))", "g_substr")
	if !vc.tc.isBV(types.Typ[types.Uint8]) {
		vc.addAxiom("strat_range", "(forall ((s Str) (i Int)) (! (and (<= 0 (g_strat s i)) (<= (g_strat s i) 255)) :pattern ((g_strat s i))))", "g_strat")
	}
}
