package main

// Specification expression language: lexer, Pratt parser, AST.

import (
	"fmt"
	"math/big"
	"strings"
	"unicode"
)

type Expr interface{}

type EIdent struct{ Name string }
type EInt struct{ Val *big.Int }
type EStr struct{ Val string }
type EBool struct{ Val bool }
type ENil struct{}
type EBin struct {
	Op   string
	L, R Expr
}
type EUn struct {
	Op string
	X  Expr
}
type ECall struct {
	Fn   Expr
	Args []Expr
}
type ESel struct {
	X    Expr
	Name string
}
type EIndex struct{ X, I Expr }
type ESlice struct{ X, Lo, Hi Expr }
type QVar struct {
	Name string
	Type *TypeExpr
}
type EQuant struct {
	Forall bool
	Vars   []QVar
	Body   Expr
}
type ECond struct{ C, A, B Expr }
type EOld struct{ X Expr }
type EIs struct {
	X    Expr
	Type *TypeExpr
}
type EAs struct {
	X    Expr
	Type *TypeExpr
}

// ELit is a composite literal T{a, b} (struct by position) used rarely.
type ELit struct {
	Type *TypeExpr
	Args []Expr
}

// TypeExpr is a parsed type: name, pointer, slice, set, mset, map.
type TypeExpr struct {
	Kind string // "name", "ptr", "slice", "set", "mset", "map", "seq"
	Name string // for "name": possibly qualified pkg.Name
	Elem *TypeExpr
	Key  *TypeExpr
}

func (t *TypeExpr) String() string {
	switch t.Kind {
	case "name":
		return t.Name
	case "ptr":
		return "*" + t.Elem.String()
	case "slice":
		return "[]" + t.Elem.String()
	case "map":
		return "map[" + t.Key.String() + "]" + t.Elem.String()
	}
	return t.Kind + "[" + t.Elem.String() + "]"
}

type tok_t struct {
	kind string // ident, int, str, op, eof
	text string
	pos  int
}

func lex(src string) ([]tok_t, error) {
	var toks []tok_t
	i := 0
	ops := []string{"<==>", "==>", "::", "==", "!=", "<=", ">=", "&&", "||", "<<", ">>", "&^",
		"+", "-", "*", "/", "%", "<", ">", "!", "(", ")", "[", "]", "{", "}", ",", ".", ":", "?", "&", "|", "^", "#"}
	for i < len(src) {
		c := rune(src[i])
		if unicode.IsSpace(c) {
			i++
			continue
		}
		if unicode.IsLetter(c) || c == '_' || c == '$' {
			j := i
			for j < len(src) && (unicode.IsLetter(rune(src[j])) || unicode.IsDigit(rune(src[j])) || src[j] == '_' || src[j] == '$') {
				j++
			}
			toks = append(toks, tok_t{"ident", src[i:j], i})
			i = j
			continue
		}
		if unicode.IsDigit(c) {
			j := i
			for j < len(src) && (unicode.IsDigit(rune(src[j])) || src[j] == 'x' || (src[j] >= 'a' && src[j] <= 'f') || (src[j] >= 'A' && src[j] <= 'F') || src[j] == '_') {
				j++
			}
			toks = append(toks, tok_t{"int", src[i:j], i})
			i = j
			continue
		}
		if c == '"' {
			j := i + 1
			var sb strings.Builder
			for j < len(src) && src[j] != '"' {
				if src[j] == '\\' && j+1 < len(src) {
					j++
					switch src[j] {
					case 'n':
						sb.WriteByte('\n')
					case 't':
						sb.WriteByte('\t')
					case 'r':
						sb.WriteByte('\r')
					default:
						sb.WriteByte(src[j])
					}
				} else {
					sb.WriteByte(src[j])
				}
				j++
			}
			if j >= len(src) {
				return nil, fmt.Errorf("unterminated string at %d", i)
			}
			toks = append(toks, tok_t{"str", sb.String(), i})
			i = j + 1
			continue
		}
		if c == '\'' && i+2 < len(src) {
			// character literal
			j := i + 1
			var v byte
			if src[j] == '\\' {
				j++
				switch src[j] {
				case 'n':
					v = '\n'
				case 't':
					v = '\t'
				case 'r':
					v = '\r'
				case '0':
					v = 0
				default:
					v = src[j]
				}
			} else {
				v = src[j]
			}
			j++
			if j >= len(src) || src[j] != '\'' {
				return nil, fmt.Errorf("bad char literal at %d", i)
			}
			toks = append(toks, tok_t{"int", fmt.Sprint(int(v)), i})
			i = j + 1
			continue
		}
		matched := false
		for _, op := range ops {
			if strings.HasPrefix(src[i:], op) {
				toks = append(toks, tok_t{"op", op, i})
				i += len(op)
				matched = true
				break
			}
		}
		if !matched {
			return nil, fmt.Errorf("unexpected character %q at %d in %q", c, i, src)
		}
	}
	toks = append(toks, tok_t{"eof", "", len(src)})
	return toks, nil
}

type parser struct {
	toks []tok_t
	p    int
	src  string
}

func parseExpr(src string) (e Expr, err error) {
	toks, err := lex(src)
	if err != nil {
		return nil, err
	}
	ps := &parser{toks: toks, src: src}
	defer func() {
		if r := recover(); r != nil {
			if pe, ok := r.(parseErr); ok {
				err = fmt.Errorf("%s in %q", pe.msg, src)
				return
			}
			panic(r)
		}
	}()
	e = ps.expr(0)
	if ps.peek().kind != "eof" {
		ps.fail("unexpected tok_t %q", ps.peek().text)
	}
	return e, nil
}

type parseErr struct{ msg string }

func (ps *parser) fail(f string, a ...interface{}) {
	panic(parseErr{fmt.Sprintf(f, a...) + fmt.Sprintf(" (at offset %d)", ps.peek().pos)})
}

func (ps *parser) peek() tok_t { return ps.toks[ps.p] }
func (ps *parser) next() tok_t { t := ps.toks[ps.p]; ps.p++; return t }
func (ps *parser) isOp(s string) bool {
	t := ps.peek()
	return t.kind == "op" && t.text == s
}
func (ps *parser) isIdent(s string) bool {
	t := ps.peek()
	return t.kind == "ident" && t.text == s
}
func (ps *parser) expectOp(s string) {
	if !ps.isOp(s) {
		ps.fail("expected %q, got %q", s, ps.peek().text)
	}
	ps.next()
}

var binPrec = map[string]int{
	"<==>": 1, "==>": 2, "||": 4, "&&": 5,
	"==": 6, "!=": 6, "<": 6, "<=": 6, ">": 6, ">=": 6, "in": 6, "!in": 6,
	"+": 7, "-": 7, "|": 7, "^": 7,
	"*": 8, "/": 8, "%": 8, "&": 8, "<<": 8, ">>": 8, "&^": 8,
}

func (ps *parser) expr(minPrec int) Expr {
	lhs := ps.unary()
	for {
		t := ps.peek()
		op := ""
		if t.kind == "op" {
			op = t.text
		} else if t.kind == "ident" && t.text == "in" {
			op = "in"
		}
		if op == "!" && ps.toks[ps.p+1].kind == "ident" && ps.toks[ps.p+1].text == "in" {
			op = "!in"
		}
		if op == "?" && minPrec <= 3 {
			ps.next()
			a := ps.expr(3)
			ps.expectOp(":")
			b := ps.expr(3)
			lhs = ECond{lhs, a, b}
			continue
		}
		prec, ok := binPrec[op]
		if !ok || prec < minPrec {
			return lhs
		}
		ps.next()
		if op == "!in" {
			ps.next()
		}
		var rhs Expr
		if op == "==>" {
			rhs = ps.expr(prec) // right assoc
		} else {
			rhs = ps.expr(prec + 1)
		}
		lhs = EBin{op, lhs, rhs}
	}
}

func (ps *parser) unary() Expr {
	t := ps.peek()
	if t.kind == "op" && (t.text == "!" || t.text == "-" || t.text == "^" || t.text == "&") {
		ps.next()
		return EUn{t.text, ps.unary()}
	}
	if t.kind == "ident" && (t.text == "forall" || t.text == "exists") {
		ps.next()
		var vars []QVar
		for {
			var names []string
			names = append(names, ps.identName())
			for ps.isOp(",") {
				ps.next()
				names = append(names, ps.identName())
			}
			ty := ps.typeExpr()
			for _, n := range names {
				vars = append(vars, QVar{n, ty})
			}
			if ps.isOp(",") {
				ps.next()
				continue
			}
			break
		}
		ps.expectOp("::")
		body := ps.expr(0)
		return EQuant{t.text == "forall", vars, body}
	}
	return ps.postfix(ps.primary())
}

func (ps *parser) identName() string {
	t := ps.next()
	if t.kind != "ident" {
		ps.p--
		ps.fail("expected identifier, got %q", t.text)
	}
	return t.text
}

func (ps *parser) typeExpr() *TypeExpr {
	if ps.isOp("*") {
		ps.next()
		return &TypeExpr{Kind: "ptr", Elem: ps.typeExpr()}
	}
	if ps.isOp("[") {
		ps.next()
		ps.expectOp("]")
		return &TypeExpr{Kind: "slice", Elem: ps.typeExpr()}
	}
	name := ps.identName()
	if name == "set" || name == "mset" || name == "seq" {
		if ps.isOp("[") {
			ps.next()
			el := ps.typeExpr()
			ps.expectOp("]")
			return &TypeExpr{Kind: name, Elem: el}
		}
	}
	if name == "map" && ps.isOp("[") {
		ps.next()
		k := ps.typeExpr()
		ps.expectOp("]")
		v := ps.typeExpr()
		return &TypeExpr{Kind: "map", Key: k, Elem: v}
	}
	if ps.isOp(".") {
		ps.next()
		name = name + "." + ps.identName()
	}
	return &TypeExpr{Kind: "name", Name: name}
}

func (ps *parser) primary() Expr {
	t := ps.next()
	switch t.kind {
	case "int":
		txt := strings.ReplaceAll(t.text, "_", "")
		v := new(big.Int)
		if _, ok := v.SetString(txt, 0); !ok {
			ps.fail("bad integer %q", t.text)
		}
		return EInt{v}
	case "str":
		return EStr{t.text}
	case "ident":
		switch t.text {
		case "true":
			return EBool{true}
		case "false":
			return EBool{false}
		case "nil":
			return ENil{}
		case "old":
			ps.expectOp("(")
			e := ps.expr(0)
			ps.expectOp(")")
			return EOld{e}
		}
		return EIdent{t.text}
	case "op":
		if t.text == "(" {
			e := ps.expr(0)
			ps.expectOp(")")
			return e
		}
	}
	ps.p--
	ps.fail("unexpected tok_t %q", t.text)
	return nil
}

func (ps *parser) postfix(e Expr) Expr {
	for {
		switch {
		case ps.isOp("."):
			ps.next()
			if ps.isOp("(") { // type assertion x.(T)
				ps.next()
				ty := ps.typeExpr()
				ps.expectOp(")")
				e = EAs{e, ty}
				continue
			}
			e = ESel{e, ps.identName()}
		case ps.isOp("#"):
			// name#2 disambiguation of shadowed locals
			ps.next()
			n := ps.next()
			id, ok := e.(EIdent)
			if !ok || n.kind != "int" {
				ps.fail("bad # suffix")
			}
			e = EIdent{id.Name + "#" + n.text}
		case ps.isOp("("):
			ps.next()
			var args []Expr
			for !ps.isOp(")") {
				args = append(args, ps.expr(0))
				if ps.isOp(",") {
					ps.next()
				} else {
					break
				}
			}
			ps.expectOp(")")
			e = ECall{e, args}
		case ps.isOp("["):
			ps.next()
			var lo, hi Expr
			if ps.isOp(":") {
				ps.next()
				if !ps.isOp("]") {
					hi = ps.expr(0)
				}
				ps.expectOp("]")
				e = ESlice{e, nil, hi}
				continue
			}
			lo = ps.expr(0)
			if ps.isOp(":") {
				ps.next()
				if !ps.isOp("]") {
					hi = ps.expr(0)
				}
				ps.expectOp("]")
				e = ESlice{e, lo, hi}
				continue
			}
			ps.expectOp("]")
			e = EIndex{e, lo}
		case ps.isIdent("is"):
			ps.next()
			e = EIs{e, ps.typeExpr()}
		case ps.isIdent("as"):
			ps.next()
			e = EAs{e, ps.typeExpr()}
		default:
			return e
		}
	}
}

func exprString(e Expr) string {
	switch x := e.(type) {
	case EIdent:
		return x.Name
	case EInt:
		return x.Val.String()
	case EStr:
		return fmt.Sprintf("%q", x.Val)
	case EBool:
		return fmt.Sprint(x.Val)
	case ENil:
		return "nil"
	case EBin:
		return "(" + exprString(x.L) + " " + x.Op + " " + exprString(x.R) + ")"
	case EUn:
		return x.Op + exprString(x.X)
	case ECall:
		var as []string
		for _, a := range x.Args {
			as = append(as, exprString(a))
		}
		return exprString(x.Fn) + "(" + strings.Join(as, ", ") + ")"
	case ESel:
		return exprString(x.X) + "." + x.Name
	case EIndex:
		return exprString(x.X) + "[" + exprString(x.I) + "]"
	case ESlice:
		lo, hi := "", ""
		if x.Lo != nil {
			lo = exprString(x.Lo)
		}
		if x.Hi != nil {
			hi = exprString(x.Hi)
		}
		return exprString(x.X) + "[" + lo + ":" + hi + "]"
	case EQuant:
		q := "exists"
		if x.Forall {
			q = "forall"
		}
		var vs []string
		for _, v := range x.Vars {
			vs = append(vs, v.Name+" "+v.Type.String())
		}
		return "(" + q + " " + strings.Join(vs, ", ") + " :: " + exprString(x.Body) + ")"
	case ECond:
		return "(" + exprString(x.C) + " ? " + exprString(x.A) + " : " + exprString(x.B) + ")"
	case EOld:
		return "old(" + exprString(x.X) + ")"
	case EIs:
		return exprString(x.X) + " is " + x.Type.String()
	case EAs:
		return exprString(x.X) + " as " + x.Type.String()
	}
	return fmt.Sprintf("%v", e)
}
