package main

import (
	"fmt"
	"go/ast"
	"go/constant"
	"go/token"
	"go/types"
	"os"
	"strings"

	"golang.org/x/tools/go/packages"
	"golang.org/x/tools/go/ssa"
	"golang.org/x/tools/go/ssa/ssautil"
)

type loadedPkg struct {
	pkg *packages.Package
}

var allPkgs map[string]*packages.Package

func loadProgram(repo string, patterns []string, overlay map[string][]byte, specDirs ...string) (*Program, error) {
	cfg := &packages.Config{Mode: packages.LoadAllSyntax, Dir: repo, Overlay: overlay,
		Env: append(os.Environ(), "GOFLAGS=-mod=mod", "GOPROXY=off")}
	pkgs, err := packages.Load(cfg, patterns...)
	if err != nil {
		return nil, err
	}
	var errs []string
	packages.Visit(pkgs, nil, func(p *packages.Package) {
		for _, e := range p.Errors {
			errs = append(errs, e.Error())
		}
	})
	if len(errs) > 0 {
		return nil, fmt.Errorf("package errors: %s", strings.Join(errs, "; "))
	}
	prog, _ := ssautil.AllPackages(pkgs, ssa.NaiveForm|ssa.GlobalDebug|ssa.InstantiateGenerics)
	prog.Build()
	p := &Program{ssaProg: prog, funcs: map[string]*ssa.Function{}, pkgs: map[string]*ssa.Package{}, typesPkgs: map[string]*types.Package{},
		loopFree: map[*ssa.Function]bool{}, implCache: map[string][]types.Type{}}
	allPkgs = map[string]*packages.Package{}
	packages.Visit(pkgs, nil, func(pp *packages.Package) {
		allPkgs[pp.PkgPath] = pp
		p.typesPkgs[pp.PkgPath] = pp.Types
		if p.fset == nil {
			p.fset = pp.Fset
		}
	})
	for _, sp := range prog.AllPackages() {
		p.pkgs[relPkgPath(sp.Pkg)] = sp
	}
	p.mutableGlobals = map[*ssa.Global]bool{}
	for fn := range ssautil.AllFunctions(prog) {
		if (fn.Name() == "init" || strings.HasPrefix(fn.Name(), "init#")) && fn.Parent() == nil && fn.Signature.Recv() == nil {
			continue
		}
		for _, b := range fn.Blocks {
			for _, in := range b.Instrs {
				for _, op := range in.Operands(nil) {
					g, ok := (*op).(*ssa.Global)
					if !ok {
						continue
					}
					// a global is immutable if its address is only ever loaded from
					if u, isLoad := in.(*ssa.UnOp); isLoad && u.Op == token.MUL {
						continue
					}
					if fa, isFA := in.(*ssa.FieldAddr); isFA {
						onlyLoads := true
						for _, r := range *fa.Referrers() {
							if u, isLoad := r.(*ssa.UnOp); !(isLoad && u.Op == token.MUL) {
								if _, dbg := r.(*ssa.DebugRef); !dbg {
									onlyLoads = false
								}
							}
						}
						if onlyLoads {
							continue
						}
					}
					if _, dbg := in.(*ssa.DebugRef); dbg {
						continue
					}
					if os.Getenv("GOCV_DEBUG_GLOBALS") != "" {
						fmt.Fprintf(os.Stderr, "global %s marked mutable by %T in %s: %s\n", g.Name(), in, fn.String(), in.String())
					}
					p.mutableGlobals[g] = true
				}
			}
		}
	}
	cs, err := loadContracts(repo, specDirs...)
	if err != nil {
		return nil, err
	}
	p.cs = cs
	return p, nil
}

// globalInit evaluates simple initialisers of package-level variables (composite literals of constants).
func (p *Program) globalInit(g *ssa.Global, ex *Exec) (string, bool) {
	pp := allPkgs[g.Pkg.Pkg.Path()]
	if pp == nil {
		return "", false
	}
	obj := g.Object()
	if obj == nil {
		return "", false
	}
	for _, f := range pp.Syntax {
		for _, d := range f.Decls {
			gd, ok := d.(*ast.GenDecl)
			if !ok || gd.Tok != token.VAR {
				continue
			}
			for _, sp := range gd.Specs {
				vs := sp.(*ast.ValueSpec)
				for i, n := range vs.Names {
					if pp.TypesInfo.Defs[n] == obj && i < len(vs.Values) && len(vs.Values) == len(vs.Names) {
						return p.constExpr(pp, vs.Values[i], ex)
					}
				}
			}
		}
	}
	return "", false
}

func (p *Program) constExpr(pp *packages.Package, e ast.Expr, ex *Exec) (string, bool) {
	tc := ex.vc.tc
	tv, ok := pp.TypesInfo.Types[e]
	if !ok {
		return "", false
	}
	if tv.Value != nil {
		t := tv.Type
		switch {
		case isIntType(t):
			b, ok := constToBig(tv.Value)
			if !ok {
				return "", false
			}
			return tc.intLit(b, t), true
		case isStringType(t):
			return tc.strLit(constant.StringVal(tv.Value)), true
		case isBoolType(t):
			return boolLit(constant.BoolVal(tv.Value)), true
		}
		return "", false
	}
	switch x := e.(type) {
	case *ast.CompositeLit:
		st, ok := tv.Type.Underlying().(*types.Struct)
		if !ok {
			return "", false
		}
		si := tc.structInfoOf(tv.Type)
		args := make([]string, st.NumFields())
		for i := range args {
			args[i] = tc.zero(st.Field(i).Type())
		}
		for i, el := range x.Elts {
			if kv, ok := el.(*ast.KeyValueExpr); ok {
				id, ok := kv.Key.(*ast.Ident)
				if !ok {
					return "", false
				}
				found := false
				for j := 0; j < st.NumFields(); j++ {
					if st.Field(j).Name() == id.Name {
						v, ok := p.constExpr(pp, kv.Value, ex)
						if !ok {
							return "", false
						}
						args[j] = v
						found = true
					}
				}
				if !found {
					return "", false
				}
			} else {
				v, ok := p.constExpr(pp, el, ex)
				if !ok {
					return "", false
				}
				args[i] = v
			}
		}
		if len(args) == 0 {
			return si.ctor, true
		}
		return sx(si.ctor, args...), true
	case *ast.ParenExpr:
		return p.constExpr(pp, x.X, ex)
	}
	return "", false
}
