package main

import (
	"flag"
	"fmt"
	"golang.org/x/tools/go/ssa"
	"golang.org/x/tools/go/ssa/ssautil"
	"os"
	"sort"
	"strings"
	"sync"
	"time"
)

type OblResult struct {
	O    *Obligation
	R    SolveResult
	Fn   *FuncResult
	OK   bool
	Qry  string
	Skip bool // an open vacuity guard: reported, not counted
}

func usage() {
	fmt.Fprintln(os.Stderr, "usage: gocv verify|check|list ...")
	os.Exit(2)
}

func main() {
	if len(os.Args) < 2 {
		usage()
	}
	switch os.Args[1] {
	case "verify":
		cmdVerify(os.Args[2:])
	case "check":
		cmdCheck(os.Args[2:])
	case "selftest":
		cmdSelftest(os.Args[2:])
	case "anchors":
		cmdAnchors(os.Args[2:])
	default:
		usage()
	}
}

func pkgPatternsFor(keys []string, cs *ContractSet) []string {
	set := map[string]bool{}
	for _, k := range keys {
		i := strings.LastIndex(k, ".")
		pk := k[:i]
		if j := strings.Index(pk, "."); j >= 0 && !strings.Contains(pk, "/") {
			pk = pk[:j]
		}
		set["./"+pk] = true
	}
	var out []string
	for k := range set {
		out = append(out, k)
	}
	sort.Strings(out)
	return out
}

// runObligations discharges all obligations in parallel.
func runObligations(frs []*FuncResult, dir string, secs int, wantModels bool) []*OblResult {
	var out []*OblResult
	for _, fr := range frs {
		for _, o := range fr.Obls {
			out = append(out, &OblResult{O: o, Fn: fr})
		}
	}
	var wg sync.WaitGroup
	for _, or := range out {
		wg.Add(1)
		go func(or *OblResult) {
			defer wg.Done()
			q := or.Fn.VC.query(or.O, wantModels)
			or.Qry = q
			if len(q) > 3000000 {
				or.R = SolveResult{Status: "error", Raw: "query exceeds size cap"}
				return
			}
			t := secs
			if or.O.Expect == "sat" && t > 4 {
				t = 4 // vacuity guards are only claimed when they are easy
			}
			or.R = solve(q, dir, or.O.Name, t, nil)
			want := "unsat"
			if or.O.Expect == "sat" {
				want = "sat"
			}
			or.OK = or.R.Status == want
		}(or)
	}
	wg.Wait()
	return out
}

func cmdVerify(args []string) {
	fs := flag.NewFlagSet("verify", flag.ExitOnError)
	repo := fs.String("repo", "/repo", "repository root")
	dir := fs.String("dump", "", "directory for SMT files")
	secs := fs.Int("timeout", 10, "solver timeout (s)")
	pkgs := fs.String("pkgs", "", "comma separated package patterns to load (default: from keys)")
	all := fs.Bool("all", false, "verify every contract in the loaded packages")
	verbose := fs.Bool("v", false, "verbose")
	fs.Parse(args)
	keys := fs.Args()
	t0 := time.Now()
	var patterns []string
	if *pkgs != "" {
		patterns = strings.Split(*pkgs, ",")
	} else {
		patterns = pkgPatternsFor(keys, nil)
	}
	prog, err := loadProgram(*repo, patterns, nil, "/verif/libspec")
	if err != nil {
		fmt.Fprintln(os.Stderr, "load:", err)
		os.Exit(2)
	}
	fmt.Printf("loaded in %.1fs; %d contracts, %d spec funcs, %d lemmas\n", time.Since(t0).Seconds(), len(prog.cs.Funcs), len(prog.cs.Specs), len(prog.cs.Lemmas))
	if *all {
		keys = nil
		for _, k := range prog.cs.Order {
			ct := prog.cs.Funcs[k]
			if prog.pkgs[ct.PkgPath] != nil && !ct.Trusted {
				keys = append(keys, k)
			}
		}
		for _, k := range sortedKeys(prog.cs.Lemmas) {
			if !prog.cs.Lemmas[k].Axiom && prog.pkgs[prog.cs.Lemmas[k].PkgPath] != nil {
				keys = append(keys, "lemma:"+k)
			}
		}
	}
	d := *dir
	if d == "" {
		d, _ = os.MkdirTemp("", "gocv")
		defer os.RemoveAll(d)
	} else {
		os.MkdirAll(d, 0o755)
	}
	var frs []*FuncResult
	for _, k := range keys {
		frs = append(frs, prog.verifyKey(k))
	}
	results := runObligations(frs, d, *secs, true)
	bad := 0
	for _, fr := range frs {
		if fr.Err != nil {
			fmt.Printf("ERROR %s: %v\n", fr.Key, fr.Err)
			bad++
		}
		if *verbose {
			for _, n := range fr.Notes {
				fmt.Printf("  note: %s\n", n)
			}
		}
	}
	for _, r := range results {
		mark := "ok  "
		if !r.OK {
			mark = "FAIL"
			bad++
		}
		if *verbose || !r.OK {
			fmt.Printf("%s %-8s %-7s %5.2fs %s\n", mark, r.R.Status, r.R.Solver, r.R.Time, describeObligation(r.O))
			if !r.OK && r.R.Status == "sat" {
				fmt.Printf("     model: %s\n", strings.Join(strings.Fields(strings.SplitN(r.R.Raw, "\n", 2)[1]), " "))
			}
			if r.R.Status == "error" {
				fmt.Printf("     %s\n", trunc(r.R.Raw, 600))
			}
		}
	}
	fmt.Printf("%d obligations, %d not discharged, %.1fs\n", len(results), bad, time.Since(t0).Seconds())
	if bad > 0 {
		os.Exit(1)
	}
}

func (p *Program) verifyKey(k string) *FuncResult {
	if strings.HasPrefix(k, "lemma:") {
		lm := p.cs.Lemmas[strings.TrimPrefix(k, "lemma:")]
		if lm == nil {
			return &FuncResult{Key: k, Err: fmt.Errorf("no such lemma")}
		}
		return p.verifyLemma(lm)
	}
	if strings.HasPrefix(k, "globalwrites:") {
		return p.globalWriteSweep(k, strings.Split(strings.TrimPrefix(k, "globalwrites:"), ","))
	}
	if strings.HasPrefix(k, "globaluse:") {
		// globaluse:<pkg.var>:<f1,f2,...>  - only the listed functions mention the package-level variable
		parts := strings.SplitN(strings.TrimPrefix(k, "globaluse:"), ":", 2)
		var allow []string
		if len(parts) == 2 {
			allow = strings.Split(parts[1], ",")
		}
		return p.globalUseSweep(k, parts[0], allow)
	}
	sweep := false
	if strings.HasPrefix(k, "sweep:") {
		sweep = true
		k = strings.TrimPrefix(k, "sweep:")
	}
	ct := p.cs.Funcs[k]
	if ct == nil && !sweep {
		return &FuncResult{Key: k, Err: fmt.Errorf("no contract for %s", k)}
	}
	var fnc = ct
	if fnc == nil {
		// sweep without contract: synthesise an empty one to locate the function
		parts := strings.Split(k, ".")
		fnc = &Contract{PkgPath: parts[0], Name: parts[len(parts)-1], Loops: map[int]*LoopSpec{}, Opts: map[string]string{}}
		if len(parts) == 3 {
			fnc.Recv = parts[1]
		}
		if i := strings.LastIndex(k, "/"); i >= 0 {
			rest := strings.Split(k[i+1:], ".")
			fnc.PkgPath = k[:i+1] + rest[0]
		}
	}
	fn := p.findFunction(fnc)
	if fn == nil {
		return &FuncResult{Key: k, Err: fmt.Errorf("function %s not found in the current tree", k)}
	}
	return p.verifyFunc(fn, ct, sweep)
}

func cmdCheck(args []string)    { checkMain(args) }
func cmdSelftest(args []string) { selftestMain(args) }

// globalWriteSweep: every package-level variable of the module that is written (or whose address escapes)
// outside package initialisation must be on the allow list. One obligation per variable found.
// globalUseSweep: a static pass over go/ssa. Every function of the module (function literals count for their
// enclosing function) that mentions the package-level variable must be on the allow list: one failing static
// obligation per other function. Used for state that may only be touched by its lock-holding accessors.
func (p *Program) globalUseSweep(key, gvar string, allow []string) *FuncResult {
	vc := newVC(p, ModeInt)
	res := &FuncResult{Key: key, VC: vc}
	ok := map[string]bool{}
	for _, a := range allow {
		ok[strings.TrimSpace(a)] = true
	}
	users := map[string]bool{}
	for fn := range ssautil.AllFunctions(p.ssaProg) {
		if !strings.HasPrefix(funcPkgPath(fn), modPrefix) || len(fn.Blocks) == 0 {
			continue
		}
		if (fn.Name() == "init" || strings.HasPrefix(fn.Name(), "init#")) && fn.Parent() == nil {
			continue
		}
		for _, b := range fn.Blocks {
			for _, in := range b.Instrs {
				for _, op := range in.Operands(nil) {
					if gl, isG := (*op).(*ssa.Global); isG && gl.Pkg != nil && relPkgPath(gl.Pkg.Pkg)+"."+gl.Name() == gvar {
						root := fn
						for root.Parent() != nil {
							root = root.Parent()
						}
						users[funcKey(root)] = true
					}
				}
			}
		}
	}
	var names []string
	for u := range users {
		names = append(names, u)
	}
	sort.Strings(names)
	short := "globaluse(" + gvar + ")"
	for _, n := range names {
		goal := "false"
		if ok[n] {
			goal = "true"
		}
		vc.oblige(&Obligation{Name: short + "#" + n, Kind: "static", PC: "true", Goal: goal, Text: n + " mentions the package-level variable " + gvar + ": must be one of its accessors (" + strings.Join(allow, ", ") + ")", Fn: key})
	}
	vc.oblige(&Obligation{Name: short + "#count", Kind: "static", PC: "true", Goal: "true", Text: fmt.Sprintf("%d functions mention %s", len(names), gvar), Fn: key})
	res.Obls = vc.obls
	return res
}

func (p *Program) globalWriteSweep(key string, allow []string) *FuncResult {
	vc := newVC(p, ModeInt)
	res := &FuncResult{Key: key, VC: vc}
	ok := map[string]bool{}
	for _, a := range allow {
		ok[strings.TrimSpace(a)] = true
	}
	var names []string
	for g := range p.mutableGlobals {
		if g.Pkg == nil || !strings.HasPrefix(g.Pkg.Pkg.Path(), modPrefix) {
			continue
		}
		rel := relPkgPath(g.Pkg.Pkg)
		if strings.HasPrefix(rel, "parse/gen") || strings.HasPrefix(rel, "cmd/") || strings.HasPrefix(rel, "interpreter/mg") || strings.HasPrefix(rel, "examples") {
			continue
		}
		names = append(names, rel+"."+g.Name())
	}
	sort.Strings(names)
	for _, n := range names {
		goal := "false"
		if ok[n] {
			goal = "true"
		}
		vc.oblige(&Obligation{Name: key[:12] + "#" + n, Kind: "static", PC: "true", Goal: goal, Text: "package-level variable " + n + " is written outside init: must be on the allow list", Fn: key})
	}
	vc.oblige(&Obligation{Name: key[:12] + "#count", Kind: "static", PC: "true", Goal: "true", Text: fmt.Sprintf("%d package-level variables are written outside init", len(names)), Fn: key})
	res.Obls = vc.obls
	return res
}
