package main

// Maps: reference semantics. A map value is a reference (Int); each map type has two heap
// components indexed by reference: presence (Array K Bool) and values (Array K V), plus a length.

import (
	"fmt"
	"go/types"

	"golang.org/x/tools/go/ssa"
)

type mapComps struct {
	has, val, ln string // component names
	kt, vt       types.Type
	ks, vs       string
}

func (ex *Exec) mapCompsOf(t types.Type) mapComps {
	m := t.Underlying().(*types.Map)
	tc := ex.vc.tc
	ks, vs := tc.sortOf(m.Key()), tc.sortOf(m.Elem())
	// one heap per Go map type (objects of different map types cannot alias)
	base := "M:" + mangle(types.TypeString(m, func(p *types.Package) string { return shortPkg(p) }))
	mc := mapComps{has: base + ".has", val: base + ".val", ln: base + ".len", kt: m.Key(), vt: m.Elem(), ks: ks, vs: vs}
	if _, ok := ex.vc.heapT[mc.has]; !ok {
		ex.vc.heapT[mc.has] = heapComp{sort: sx("Array", ks, "Bool"), isArr: true}
		ex.vc.heapT[mc.val] = heapComp{sort: sx("Array", ks, vs), isArr: true}
		ex.vc.heapT[mc.ln] = heapComp{sort: "Int", isArr: true}
	}
	return mc
}

func (ex *Exec) mapHeap(st *State, comp string) string {
	if t, ok := st.heap[comp]; ok {
		return t
	}
	n := ex.initialCompIn(st, comp)
	st.heap[comp] = n
	return n
}

func (ex *Exec) lenToIdx(s string) string { return s }

func (ex *Exec) mapLen(st *State, m Term) Value {
	mc := ex.mapCompsOf(m.T)
	l := sx("select", ex.mapHeap(st, mc.ln), m.S)
	ex.assume(st, sx("<=", "0", l))
	// an empty map has no keys (the length is the number of present keys)
	hasM := ex.vc.define("lhas", sx("Array", mc.ks, "Bool"), sx("select", ex.mapHeap(st, mc.has), m.S))
	ex.assume(st, sImp(sEq(l, "0"), fmt.Sprintf("(forall ((qk! %s)) (! (not (select %s qk!)) :pattern ((select %s qk!))))", mc.ks, hasM, hasM)))
	return Term{S: l, T: types.Typ[types.Int]}
}

func (ex *Exec) mapLenSpec(st *State, m Term) Value {
	mc := ex.mapCompsOf(m.T)
	return Term{S: sx("select", ex.mapHeap(st, mc.ln), m.S), T: types.Typ[types.Int]}
}

func (ex *Exec) mapGetSpec(st *State, m Term, k Term) Value {
	// Go semantics: the zero value when the key is absent (or the map is nil)
	mc := ex.mapCompsOf(m.T)
	has := sAnd(sNot(sEq(m.S, "0")), sx("select", sx("select", ex.mapHeap(st, mc.has), m.S), k.S))
	return Term{S: sIte(has, sx("select", sx("select", ex.mapHeap(st, mc.val), m.S), k.S), ex.vc.tc.zero(mc.vt)), T: mc.vt}
}

func (ex *Exec) mapHasSpec(st *State, m Term, k Term) string {
	// Go semantics: a nil map has no keys
	mc := ex.mapCompsOf(m.T)
	return sAnd(sNot(sEq(m.S, "0")), sx("select", sx("select", ex.mapHeap(st, mc.has), m.S), k.S))
}

func (ex *Exec) mapLookup(fr *Frame, st *State, x *ssa.Lookup) Value {
	m := ex.term(fr, st, x.X)
	k := ex.term(fr, st, x.Index)
	mc := ex.mapCompsOf(x.X.Type())
	has := ex.vc.define("mhas", "Bool", sAnd(sNot(sEq(m.S, "0")), sx("select", sx("select", ex.mapHeap(st, mc.has), m.S), k.S)))
	val := sIte(has, sx("select", sx("select", ex.mapHeap(st, mc.val), m.S), k.S), ex.vc.tc.zero(mc.vt))
	vt := Term{S: ex.vc.define("mval", mc.vs, val), T: mc.vt}
	ex.loadedFacts(st, vt)
	if x.CommaOk {
		return Tuple{[]Value{vt, Term{S: has, T: types.Typ[types.Bool]}}}
	}
	return vt
}

func (ex *Exec) makeMap(fr *Frame, st *State, x *ssa.MakeMap) Value {
	mc := ex.mapCompsOf(x.Type())
	vc := ex.vc
	r := vc.fresh("mapref", "Int")
	al := ex.allocSet(st)
	ex.assume(st, sAnd(sx(">", r, "0"), sNot(sx("select", al, r))))
	st.ghost["$alloc"] = vc.define("alloc", "(Array Int Bool)", sx("store", al, r, "true"))
	st.heap[mc.has] = vc.define("Mh", ex.compSort(mc.has), sx("store", ex.mapHeap(st, mc.has), r, sx(sx("as const", sx("Array", mc.ks, "Bool")), "false")))
	ex.mapHeap(st, mc.val)
	st.heap[mc.ln] = vc.define("Ml", ex.compSort(mc.ln), sx("store", ex.mapHeap(st, mc.ln), r, "0"))
	return Term{S: r, T: x.Type()}
}

func (ex *Exec) mapUpdate(fr *Frame, st *State, x *ssa.MapUpdate) {
	m := ex.term(fr, st, x.Map)
	k := ex.term(fr, st, x.Key)
	v := ex.term(fr, st, x.Value)
	mc := ex.mapCompsOf(x.Map.Type())
	vc := ex.vc
	if ex.safetyOn(fr) {
		ex.oblige(fr, st, "nilmap", sNot(sEq(m.S, "0")), "assignment to entry in nil map", x.Pos())
	}
	ex.assume(st, sNot(sEq(m.S, "0")))
	hasH, valH, lnH := ex.mapHeap(st, mc.has), ex.mapHeap(st, mc.val), ex.mapHeap(st, mc.ln)
	had := sx("select", sx("select", hasH, m.S), k.S)
	st.heap[mc.ln] = vc.define("Ml", ex.compSort(mc.ln), sx("store", lnH, m.S, sIte(had, sx("select", lnH, m.S), sx("+", sx("select", lnH, m.S), "1"))))
	st.heap[mc.has] = vc.define("Mh", ex.compSort(mc.has), sx("store", hasH, m.S, sx("store", sx("select", hasH, m.S), k.S, "true")))
	st.heap[mc.val] = vc.define("Mv", ex.compSort(mc.val), sx("store", valH, m.S, sx("store", sx("select", valH, m.S), k.S, v.S)))
}

func (ex *Exec) mapDelete(fr *Frame, st *State, c *ssa.CallCommon) {
	m := ex.term(fr, st, c.Args[0])
	k := ex.term(fr, st, c.Args[1])
	mc := ex.mapCompsOf(c.Args[0].Type())
	vc := ex.vc
	hasH, lnH := ex.mapHeap(st, mc.has), ex.mapHeap(st, mc.ln)
	had := sAnd(sNot(sEq(m.S, "0")), sx("select", sx("select", hasH, m.S), k.S))
	st.heap[mc.ln] = vc.define("Ml", ex.compSort(mc.ln), sx("store", lnH, m.S, sIte(had, sx("-", sx("select", lnH, m.S), "1"), sx("select", lnH, m.S))))
	st.heap[mc.has] = vc.define("Mh", ex.compSort(mc.has), sIte(sEq(m.S, "0"), hasH, sx("store", hasH, m.S, sx("store", sx("select", hasH, m.S), k.S, "false"))))
}

func (ex *Exec) havocMapType(st *State, t types.Type, tag string) {
	mc := ex.mapCompsOf(t)
	for _, c := range []string{mc.has, mc.val, mc.ln} {
		ex.mapHeap(st, c)
		st.heap[c] = ex.vc.fresh("Mx_"+tag, ex.compSort(c))
	}
}

// ---- range over maps / strings -------------------------------------------------------------
//
// A map range is an arbitrary enumeration: the iterator carries a ghost "seen" set; each Next picks
// some key that is present and not yet seen (or stops when none is left). Because nothing is assumed
// about which key is picked, whatever is proved holds for every iteration order.

type mapIter struct {
	m    Term
	seen string // ghost component name
	mc   mapComps
}

func (ex *Exec) rangeStart(fr *Frame, st *State, x *ssa.Range) Value {
	if isStringType(x.X.Type()) {
		panic(unsupported("range over string"))
	}
	m := ex.term(fr, st, x.X)
	mc := ex.mapCompsOf(x.X.Type())
	ex.lockSeq++
	seen := fmt.Sprintf("$seen%d", ex.lockSeq)
	ex.vc.heapT[seen] = heapComp{sort: sx("Array", mc.ks, "Bool")}
	st.ghost[seen] = sx(sx("as const", sx("Array", mc.ks, "Bool")), "false")
	return mapIter{m: m, seen: seen, mc: mc}
}

func (ex *Exec) rangeNext(fr *Frame, st *State, x *ssa.Next) Value {
	itv := ex.operand(fr, st, x.Iter)
	it, ok := itv.(mapIter)
	if !ok {
		panic(unsupported("next on non-map iterator"))
	}
	vc := ex.vc
	mc := it.mc
	seen, ok := st.ghost[it.seen]
	if !ok {
		seen = ex.initialCompIn(st, it.seen)
	}
	has := vc.define("rhas", sx("Array", mc.ks, "Bool"), sx("select", ex.mapHeap(st, mc.has), it.m.S))
	k := vc.fresh("rk", mc.ks)
	okc := vc.fresh("rok", "Bool")
	// ok <=> some present unseen key exists; when ok, k is such a key
	ex.assume(st, sImp(okc, sAnd(sNot(sEq(it.m.S, "0")), sx("select", has, k), sNot(sx("select", seen, k)))))
	ex.assume(st, sImp(sNot(okc), fmt.Sprintf("(forall ((qk! %s)) (! (=> (and (not (= %s 0)) (select %s qk!)) (select %s qk!)) :pattern ((select %s qk!))))", mc.ks, it.m.S, has, seen, has)))
	st.ghost[it.seen] = vc.define("seen", sx("Array", mc.ks, "Bool"), sIte(okc, sx("store", seen, k, "true"), seen))
	kt := Term{S: k, T: mc.kt}
	ex.assume(st, ex.rangeFact(k, mc.kt, 1))
	v := Term{S: vc.define("rv", mc.vs, sx("select", sx("select", ex.mapHeap(st, mc.val), it.m.S), k)), T: mc.vt}
	ex.loadedFacts(st, v)
	return Tuple{[]Value{Term{S: okc, T: types.Typ[types.Bool]}, kt, v}}
}

func sameMapIter(a, b mapIter) bool { return a.seen == b.seen }
