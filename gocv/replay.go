package main

// Replay of solver counterexamples against the real code (go test -overlay, repository untouched).

import (
	"bytes"
	"encoding/json"
	"fmt"
	"go/types"
	"os"
	"os/exec"
	"path/filepath"
	"strconv"
	"strings"

	"golang.org/x/tools/go/ssa"
)

type sexp struct {
	atom string
	list []*sexp
}

func parseSexp(s string) (*sexp, string) {
	s = strings.TrimLeft(s, " \n\t")
	if s == "" {
		return nil, ""
	}
	if s[0] == '(' {
		n := &sexp{}
		s = s[1:]
		for {
			s = strings.TrimLeft(s, " \n\t")
			if s == "" {
				return n, ""
			}
			if s[0] == ')' {
				return n, s[1:]
			}
			var c *sexp
			c, s = parseSexp(s)
			if c == nil {
				return n, s
			}
			n.list = append(n.list, c)
		}
	}
	if s[0] == '|' {
		j := strings.IndexByte(s[1:], '|')
		return &sexp{atom: s[:j+2]}, s[j+2:]
	}
	if s[0] == '"' {
		j := strings.IndexByte(s[1:], '"')
		return &sexp{atom: s[:j+2]}, s[j+2:]
	}
	j := 0
	for j < len(s) && s[j] != '(' && s[j] != ')' && s[j] != ' ' && s[j] != '\n' && s[j] != '\t' {
		j++
	}
	return &sexp{atom: s[:j]}, s[j:]
}

func (x *sexp) String() string {
	if x.list == nil && x.atom != "" {
		return x.atom
	}
	var ps []string
	for _, c := range x.list {
		ps = append(ps, c.String())
	}
	return "(" + strings.Join(ps, " ") + ")"
}

// parseModel parses "sat\n((t1 v1) (t2 v2))" into term -> value.
func parseModel(raw string) map[string]*sexp {
	i := strings.Index(raw, "\n")
	if i < 0 {
		return nil
	}
	x, _ := parseSexp(raw[i+1:])
	if x == nil {
		return nil
	}
	out := map[string]*sexp{}
	for _, p := range x.list {
		if len(p.list) == 2 {
			out[p.list[0].String()] = p.list[1]
		}
	}
	return out
}

type replayCtx struct {
	imports map[string]string // path -> alias
	pkg     *types.Package
	strs    map[string]string
	mode    Mode
	err     string
	model   map[string]*sexp
	inputs  []ModelVar
	cur     string // name of the model variable being rendered (for pointee / time lookups)
}

func (rc *replayCtx) lookup(name string) *sexp {
	for _, mv := range rc.inputs {
		if mv.Name == name {
			return rc.model[mv.Term]
		}
	}
	return nil
}

func (rc *replayCtx) typeName(t types.Type) string {
	return types.TypeString(t, func(p *types.Package) string {
		if p == rc.pkg {
			return ""
		}
		rc.imports[p.Path()] = p.Name()
		return p.Name()
	})
}

func smtInt(x *sexp, mode Mode) (int64, bool) {
	if x.list != nil {
		if len(x.list) == 2 && x.list[0].atom == "-" {
			v, ok := smtInt(x.list[1], mode)
			return -v, ok
		}
		if len(x.list) == 3 && x.list[0].atom == "_" && strings.HasPrefix(x.list[1].atom, "bv") {
			u, err := strconv.ParseUint(x.list[1].atom[2:], 10, 64)
			return int64(u), err == nil
		}
		return 0, false
	}
	if strings.HasPrefix(x.atom, "#x") {
		u, err := strconv.ParseUint(x.atom[2:], 16, 64)
		w := 4 * (len(x.atom) - 2)
		if w < 64 && u&(1<<(uint(w)-1)) != 0 {
			// sign extension is applied by the typed literal conversion below
		}
		return int64(u), err == nil
	}
	if strings.HasPrefix(x.atom, "#b") {
		u, err := strconv.ParseUint(x.atom[2:], 2, 64)
		return int64(u), err == nil
	}
	v, err := strconv.ParseInt(x.atom, 10, 64)
	if err != nil {
		// big unsigned
		u, err2 := strconv.ParseUint(x.atom, 10, 64)
		return int64(u), err2 == nil
	}
	return v, true
}

// goLiteral converts an SMT model value into a Go expression of type t.
func (rc *replayCtx) goLiteral(x *sexp, t types.Type) string {
	if t.String() == "time.Time" {
		if nv := rc.lookup(rc.cur + "#nano"); nv != nil {
			if n, ok := smtInt(nv, rc.mode); ok {
				rc.imports["time"] = "time"
				return fmt.Sprintf("time.Unix(0, %d).UTC()", n)
			}
		}
		rc.err = "time value without a UnixNano model"
		return "time.Time{}"
	}
	switch u := t.Underlying().(type) {
	case *types.Basic:
		switch {
		case isIntType(t):
			v, ok := smtInt(x, rc.mode)
			if !ok {
				rc.err = "cannot read integer " + x.String()
				return "0"
			}
			w := widthOf(t)
			if isSigned(t) {
				switch w {
				case 8:
					v = int64(int8(v))
				case 16:
					v = int64(int16(v))
				case 32:
					v = int64(int32(v))
				}
				if v == -1<<63 {
					return fmt.Sprintf("%s(-1 << 63)", rc.typeName(t))
				}
				return fmt.Sprintf("%s(%d)", rc.typeName(t), v)
			}
			return fmt.Sprintf("%s(%d)", rc.typeName(t), uint64(v))
		case isBoolType(t):
			return x.atom
		case isStringType(t):
			k := x.String()
			if s, ok := rc.strs[k]; ok {
				return strconv.Quote(s)
			}
			if strings.HasPrefix(k, "strlit_") {
				rc.err = "string literal value in model (not mapped)"
			}
			s := fmt.Sprintf("s%d", len(rc.strs))
			rc.strs[k] = s
			return strconv.Quote(s)
		}
	case *types.Struct:
		if len(x.list) == 0 && u.NumFields() == 0 {
			return rc.typeName(t) + "{}"
		}
		if len(x.list) != u.NumFields()+1 {
			rc.err = "struct value shape mismatch: " + x.String()
			return rc.typeName(t) + "{}"
		}
		var fs []string
		for i := 0; i < u.NumFields(); i++ {
			f := u.Field(i)
			if !f.Exported() && f.Pkg() != rc.pkg {
				// unexported field of another package: only the zero value can be written
				continue
			}
			fs = append(fs, f.Name()+": "+rc.goLiteral(x.list[i+1], f.Type()))
		}
		return rc.typeName(t) + "{" + strings.Join(fs, ", ") + "}"
	case *types.Slice:
		if len(x.list) != 3 {
			rc.err = "slice value shape: " + x.String()
			return "nil"
		}
		n, ok := smtInt(x.list[2], rc.mode)
		if !ok || n < 0 || n > 64 {
			rc.err = fmt.Sprintf("slice length %s not replayable", x.list[2])
			return "nil"
		}
		var els []string
		for i := int64(0); i < n; i++ {
			ev := arraySelect(x.list[1], i, rc.mode)
			if ev == nil {
				rc.err = "cannot read array model " + trunc(x.list[1].String(), 80)
				return "nil"
			}
			els = append(els, rc.goLiteral(ev, u.Elem()))
		}
		return rc.typeName(t) + "{" + strings.Join(els, ", ") + "}"
	case *types.Pointer:
		v, ok := smtInt(x, rc.mode)
		if ok && v == 0 {
			return "nil"
		}
		if s, isStruct := u.Elem().Underlying().(*types.Struct); isStruct && rc.cur != "" && !strings.Contains(rc.cur, ".") {
			base := rc.cur
			var fs []string
			for i := 0; i < s.NumFields(); i++ {
				f := s.Field(i)
				fv := rc.lookup(base + "." + f.Name())
				if fv == nil {
					rc.err = "no model for field " + f.Name()
					return "nil"
				}
				if !f.Exported() && f.Pkg() != rc.pkg {
					continue
				}
				switch f.Type().Underlying().(type) {
				case *types.Pointer, *types.Interface, *types.Map, *types.Signature, *types.Chan:
					continue // left nil: only one level is rebuilt
				}
				rc.cur = base + "." + f.Name()
				fs = append(fs, f.Name()+": "+rc.goLiteral(fv, f.Type()))
			}
			rc.cur = base
			return "&" + rc.typeName(u.Elem()) + "{" + strings.Join(fs, ", ") + "}"
		}
		rc.err = "non-nil pointer parameter not replayable"
		return "nil"
	case *types.Interface:
		if x.atom == "Dyn_nil" {
			return "nil"
		}
		rc.err = "interface parameter not replayable: " + trunc(x.String(), 60)
		return "nil"
	}
	rc.err = "type not replayable: " + t.String()
	return "nil"
}

// arraySelect evaluates a z3 array model value (store chains over const arrays, lambdas are not handled).
func arraySelect(a *sexp, i int64, mode Mode) *sexp {
	for {
		if len(a.list) == 4 && a.list[0].atom == "store" {
			k, ok := smtInt(a.list[2], mode)
			if ok && k == i {
				return a.list[3]
			}
			a = a.list[1]
			continue
		}
		if len(a.list) == 2 && a.list[0].list != nil && len(a.list[0].list) == 3 && a.list[0].list[0].atom == "as" {
			return a.list[1]
		}
		return nil
	}
}

const replayPrinter = `
func gocvSMT(v reflect.Value, bv bool) string {
	switch v.Kind() {
	case reflect.Bool:
		if v.Bool() { return "true" }
		return "false"
	case reflect.Int:
		if v.Int() < 0 { return "(- " + strings.TrimPrefix(strconv.FormatInt(v.Int(), 10), "-") + ")" }
		return strconv.FormatInt(v.Int(), 10)
	case reflect.Int8, reflect.Int16, reflect.Int32, reflect.Int64:
		if bv { return fmt.Sprintf("(_ bv%d %d)", uint64(v.Int())&(1<<uint(v.Type().Bits())-1|uint64(v.Int())*0) , v.Type().Bits()) }
		if v.Int() < 0 { return "(- " + strings.TrimPrefix(strconv.FormatInt(v.Int(), 10), "-") + ")" }
		return strconv.FormatInt(v.Int(), 10)
	case reflect.Uint, reflect.Uint8, reflect.Uint16, reflect.Uint32, reflect.Uint64:
		if bv { return fmt.Sprintf("(_ bv%d %d)", v.Uint(), v.Type().Bits()) }
		return strconv.FormatUint(v.Uint(), 10)
	case reflect.String:
		if v.Len() == 0 { return "strlit_empty!" }
		return ""
	case reflect.Struct:
		t := v.Type()
		p := strings.TrimPrefix(t.PkgPath(), "codeberg.org/TauCeti/mangle-go/")
		p = strings.NewReplacer("/", "_", ".", "_", "-", "x").Replace(p)
		name := "mk_" + p + "_" + t.Name()
		if v.NumField() == 0 { return name }
		parts := []string{name}
		for i := 0; i < v.NumField(); i++ {
			s := gocvSMT(v.Field(i), bv)
			if s == "" { return "" }
			parts = append(parts, s)
		}
		return "(" + strings.Join(parts, " ") + ")"
	}
	return ""
}
`

func bvMaskFix(s string) string { return s }

// tryReplay runs the real function on the model's inputs and confirms the violation.
func tryReplay(prog *Program, r *OblResult, repo string) (bool, string) {
	if r.R.Status != "sat" {
		return false, "solver gave no model (" + r.R.Status + ")"
	}
	if r.Fn.Lemma {
		return false, "lemma obligations have no executable replay"
	}
	ct := prog.cs.Funcs[r.Fn.Key]
	var fn *ssa.Function
	if ct != nil {
		fn = prog.findFunction(ct)
	}
	if fn == nil {
		return false, "function not found for replay"
	}
	model := parseModel(r.R.Raw)
	if model == nil {
		return false, "cannot parse model"
	}
	rc := &replayCtx{imports: map[string]string{}, pkg: fnPkg(fn), strs: map[string]string{}, mode: r.Fn.VC.mode, model: model, inputs: r.O.Inputs}
	var args []string
	var fixes []string
	for _, mv := range r.O.Inputs {
		val, ok := model[mv.Term]
		if !ok {
			return false, "model has no value for " + mv.Name
		}
		fixes = append(fixes, fmt.Sprintf("(assert (= %s %s))", mv.Term, val.String()))
	}
	recv := ""
	for i, p := range fn.Params {
		var mvv *ModelVar
		for k := range r.O.Inputs {
			if r.O.Inputs[k].Name == p.Name() {
				mvv = &r.O.Inputs[k]
			}
		}
		if mvv == nil {
			return false, "parameter " + p.Name() + " is not plain data"
		}
		rc.cur = p.Name()
		lit := rc.goLiteral(model[mvv.Term], p.Type())
		if rc.err != "" {
			return false, "replay unsupported: " + rc.err
		}
		if i == 0 && fn.Signature.Recv() != nil {
			recv = lit
			continue
		}
		args = append(args, lit)
	}
	call := fn.Name() + "(" + strings.Join(args, ", ") + ")"
	if recv != "" {
		call = "(" + recv + ")." + call
	}
	nres := fn.Signature.Results().Len()
	var lhs []string
	for i := 0; i < nres; i++ {
		lhs = append(lhs, fmt.Sprintf("r%d", i))
	}
	var b bytes.Buffer
	fmt.Fprintf(&b, "package %s\n\nimport (\n\t\"fmt\"\n\t\"reflect\"\n\t\"strconv\"\n\t\"strings\"\n\t\"testing\"\n", fnPkg(fn).Name())
	for path, alias := range rc.imports {
		fmt.Fprintf(&b, "\t%s %q\n", alias, path)
	}
	fmt.Fprintf(&b, ")\n\nvar _ = strconv.Itoa\nvar _ = strings.Join\nvar _ = reflect.ValueOf\n%s\n", strings.ReplaceAll(replayPrinter, `fmt.Sprintf("(_ bv%d %d)", uint64(v.Int())&(1<<uint(v.Type().Bits())-1|uint64(v.Int())*0) , v.Type().Bits())`, `fmt.Sprintf("(_ bv%d %d)", uint64(v.Int())&(^uint64(0)>>(64-uint(v.Type().Bits()))), v.Type().Bits())`))
	fmt.Fprintf(&b, "func TestGocvReplay(t *testing.T) {\n\tdefer func() {\n\t\tif r := recover(); r != nil {\n\t\t\tfmt.Printf(\"GOCV-PANIC %%v\\n\", r)\n\t\t}\n\t}()\n")
	bv := "false"
	if rc.mode == ModeBV {
		bv = "true"
	}
	if nres > 0 {
		fmt.Fprintf(&b, "\t%s := %s\n", strings.Join(lhs, ", "), call)
		for i := 0; i < nres; i++ {
			rt := fn.Signature.Results().At(i).Type()
			if isErrorType(rt) {
				fmt.Fprintf(&b, "\tfmt.Printf(\"GOCV-ERR %d %%v\\n\", r%d != nil)\n", i, i)
			} else {
				fmt.Fprintf(&b, "\tfmt.Printf(\"GOCV-OUT %d %%s\\n\", gocvSMT(reflect.ValueOf(r%d), %s))\n", i, i, bv)
			}
		}
	} else {
		fmt.Fprintf(&b, "\t%s\n", call)
	}
	fmt.Fprintf(&b, "\tfmt.Println(\"GOCV-DONE\")\n}\n")
	tmp, _ := os.MkdirTemp("", "gocv-replay")
	defer os.RemoveAll(tmp)
	pkgDir := filepath.Join(repo, strings.TrimPrefix(fnPkg(fn).Path(), strings.TrimSuffix(modPrefix, "/")))
	testFile := filepath.Join(pkgDir, "gocv_replay_test.go")
	src := filepath.Join(tmp, "replay_test.go")
	os.WriteFile(src, b.Bytes(), 0o644)
	ov, _ := json.Marshal(map[string]interface{}{"Replace": map[string]string{testFile: src}})
	ovf := filepath.Join(tmp, "ov.json")
	os.WriteFile(ovf, ov, 0o644)
	cmd := exec.Command("bash", "-c", fmt.Sprintf("ulimit -v 8000000; cd %s && go test -overlay %s -vet=off -count=1 -timeout 60s -run '^TestGocvReplay$' -v .", pkgDir, ovf))
	cmd.Env = append(os.Environ(), "GOFLAGS=-mod=mod", "GOPROXY=off")
	out, _ := cmd.CombinedOutput()
	outs := string(out)
	detail := "replay call: " + call + "\n"
	for _, l := range strings.Split(outs, "\n") {
		if strings.HasPrefix(l, "GOCV-") {
			detail += l + "\n"
		}
	}
	if !strings.Contains(outs, "GOCV-DONE") && !strings.Contains(outs, "GOCV-PANIC") {
		return false, detail + "replay did not run: " + trunc(outs, 1500)
	}
	panicked := strings.Contains(outs, "GOCV-PANIC")
	switch r.O.Kind {
	case "index", "slice", "nil", "div", "assert", "make", "panic", "nilmap":
		if panicked {
			return true, detail + "the real code panics on this input"
		}
		return false, detail + "the real code did not panic on this input"
	}
	if panicked {
		return false, detail + "the real code panicked; the obligation is about a return value"
	}
	if len(r.O.Outputs) == 0 {
		return false, detail + "obligation has no recorded output terms"
	}
	// ground check: inputs fixed to the model, path condition, symbolic outputs equal the observed outputs
	var eqs []string
	for _, l := range strings.Split(outs, "\n") {
		if strings.HasPrefix(l, "GOCV-OUT ") {
			f := strings.SplitN(l, " ", 3)
			i, _ := strconv.Atoi(f[1])
			if len(f) < 3 || f[2] == "" {
				return false, detail + "result type not printable for the ground check"
			}
			if i < len(r.O.Outputs) {
				eqs = append(eqs, fmt.Sprintf("(assert (= %s %s))", r.O.Outputs[i].Term, f[2]))
			}
		}
		if strings.HasPrefix(l, "GOCV-ERR ") {
			f := strings.Fields(l)
			i, _ := strconv.Atoi(f[1])
			if i < len(r.O.Outputs) {
				if f[2] == "true" {
					eqs = append(eqs, fmt.Sprintf("(assert (not (= %s Dyn_nil)))", r.O.Outputs[i].Term))
				} else {
					eqs = append(eqs, fmt.Sprintf("(assert (= %s Dyn_nil))", r.O.Outputs[i].Term))
				}
			}
		}
	}
	o2 := *r.O
	for _, ov := range r.O.Outputs {
		o2.Inputs = append(o2.Inputs, ov)
	}
	q := r.Fn.VC.query(&o2, false)
	// model values of uninterpreted sorts (Str!val!3 ...) must be declared to be mentioned
	var udecl []string
	seenU := map[string]bool{}
	byS := map[string][]string{}
	for _, f := range fixes {
		for _, sym := range symbolsOf(f) {
			if i := strings.Index(sym, "!val!"); i > 0 && !seenU[sym] {
				seenU[sym] = true
				udecl = append(udecl, fmt.Sprintf("(declare-const %s %s)", sym, sym[:i]))
				byS[sym[:i]] = append(byS[sym[:i]], sym)
			}
		}
	}
	for _, vs := range byS {
		if len(vs) > 1 {
			udecl = append(udecl, "(assert (distinct "+strings.Join(vs, " ")+"))")
		}
	}
	for i, e := range eqs {
		eqs[i] = strings.ReplaceAll(e, "strlit_empty!", r.Fn.VC.tc.strLit(""))
	}
	q = strings.Replace(q, "(check-sat)", strings.Join(udecl, "\n")+"\n"+strings.Join(fixes, "\n")+"\n"+strings.Join(eqs, "\n")+"\n(check-sat)", 1)
	res := solve(q, tmp, "ground", 20, []string{"z3-new"})
	if res.Status == "sat" {
		return true, detail + "ground check: with the observed outputs the postcondition is violated"
	}
	return false, detail + "ground check: observed outputs do not violate the postcondition (" + res.Status + ")"
}
