package main

// selftest: the must-fail corpus. Each entry is a textual edit of a repository file applied in memory
// (packages.Config.Overlay); the named obligation class must stop discharging. Entries with expect
// "pass" are false-alarm canaries: nothing may fail.

import (
	"encoding/json"
	"flag"
	"fmt"
	"os"
	"path/filepath"
	"sort"
	"strings"
)

type Mutant struct {
	ID      string   `json:"id"`
	Prop    string   `json:"property"`
	File    string   `json:"file"` // relative to repo
	Old     string   `json:"old"`
	New     string   `json:"new"`
	Units   []string `json:"units"`  // what to verify
	Expect  string   `json:"expect"` // obligation class expected to fail, or "pass"
	Comment string   `json:"comment,omitempty"`
}

func selftestMain(args []string) {
	fs := flag.NewFlagSet("selftest", flag.ExitOnError)
	repo := fs.String("repo", "/repo", "repository root")
	only := fs.String("prop", "", "only this property")
	id := fs.String("id", "", "only this mutant id")
	secs := fs.Int("timeout", 10, "solver timeout")
	fs.Parse(args)
	files, _ := filepath.Glob(filepath.Join(verifRoot, "selftest", "*.json"))
	sort.Strings(files)
	var muts []Mutant
	for _, f := range files {
		var ms []Mutant
		if err := readJSON(f, &ms); err != nil {
			fmt.Fprintf(os.Stderr, "%s: %v\n", f, err)
			os.Exit(2)
		}
		muts = append(muts, ms...)
	}
	bad := 0
	n := 0
	for _, m := range muts {
		if *only != "" && m.Prop != *only {
			continue
		}
		if *id != "" && m.ID != *id {
			continue
		}
		n++
		ok, msg := runMutant(*repo, m, *secs)
		st := "ok  "
		if !ok {
			st = "HOLE"
			bad++
		}
		fmt.Printf("%s %s %s: %s\n", st, m.Prop, m.ID, msg)
	}
	fmt.Printf("selftest: %d mutants, %d not behaving as expected\n", n, bad)
	if bad > 0 {
		os.Exit(1)
	}
}

func runMutant(repo string, m Mutant, secs int) (bool, string) {
	path := filepath.Join(repo, m.File)
	src, err := os.ReadFile(path)
	if err != nil {
		return false, err.Error()
	}
	if strings.Count(string(src), m.Old) != 1 {
		return false, fmt.Sprintf("edit anchor occurs %d times in %s", strings.Count(string(src), m.Old), m.File)
	}
	mod := strings.Replace(string(src), m.Old, m.New, 1)
	overlay := map[string][]byte{path: []byte(mod)}
	patterns := pkgPatternsFor(stripPrefixes(m.Units), nil)
	for _, u := range m.Units {
		if strings.HasPrefix(u, "globalwrites:") {
			patterns = []string{"./..."}
		}
	}
	prog, err := loadProgram(repo, patterns, overlay, filepath.Join(verifRoot, "libspec"))
	if err != nil {
		return false, "mutant does not load: " + trunc(err.Error(), 300)
	}
	dir, _ := os.MkdirTemp("", "gocv-mut")
	defer os.RemoveAll(dir)
	var frs []*FuncResult
	for _, u := range m.Units {
		frs = append(frs, prog.verifyKey(u))
	}
	results := runObligations(frs, dir, secs, false)
	failed := map[string]string{}
	for _, r := range results {
		if !r.OK {
			if r.O.Expect == "sat" && r.R.Status != "unsat" {
				continue // an open vacuity guard is not a failure (as in check)
			}
			failed[oblClass(r.O.Name)] = r.R.Status
		}
	}
	for _, fr := range frs {
		if fr.Err != nil {
			failed[fr.Key+"#translation"] = fr.Err.Error()
		}
	}
	var fl []string
	for c, s := range failed {
		fl = append(fl, c+"("+trunc(s, 60)+")")
	}
	sort.Strings(fl)
	if m.Expect == "pass" {
		if len(failed) == 0 {
			return true, "canary passes"
		}
		return false, "false alarm: " + strings.Join(fl, ", ")
	}
	for c := range failed {
		if c == m.Expect || strings.HasPrefix(c, m.Expect) {
			return true, "fails " + c + " (" + failed[c] + ")"
		}
	}
	if len(failed) > 0 {
		return false, "expected " + m.Expect + " to fail, but only: " + strings.Join(fl, ", ")
	}
	return false, "expected " + m.Expect + " to fail, everything discharged"
}

func dumpJSON(v interface{}) string {
	b, _ := json.MarshalIndent(v, "", " ")
	return string(b)
}
