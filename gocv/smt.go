package main

// SMT-LIB text helpers, sorts and datatype generation from go/types.

import (
	"fmt"
	"go/constant"
	"go/types"
	"math/big"
	"sort"
	"strings"
)

type Mode int

const (
	ModeInt Mode = iota
	ModeBV
)

func sx(op string, args ...string) string {
	if len(args) == 0 {
		return op
	}
	return "(" + op + " " + strings.Join(args, " ") + ")"
}

func sAnd(xs ...string) string {
	var ys []string
	for _, x := range xs {
		if x == "true" || x == "" {
			continue
		}
		if x == "false" {
			return "false"
		}
		ys = append(ys, x)
	}
	switch len(ys) {
	case 0:
		return "true"
	case 1:
		return ys[0]
	}
	return sx("and", ys...)
}

func sOr(xs ...string) string {
	var ys []string
	for _, x := range xs {
		if x == "false" || x == "" {
			continue
		}
		if x == "true" {
			return "true"
		}
		ys = append(ys, x)
	}
	switch len(ys) {
	case 0:
		return "false"
	case 1:
		return ys[0]
	}
	return sx("or", ys...)
}

func sNot(x string) string {
	switch x {
	case "true":
		return "false"
	case "false":
		return "true"
	}
	if strings.HasPrefix(x, "(not ") && balanced(x[5:len(x)-1]) {
		return x[5 : len(x)-1]
	}
	return sx("not", x)
}

func balanced(s string) bool {
	d := 0
	for i, c := range s {
		switch c {
		case '(':
			d++
		case ')':
			d--
			if d < 0 {
				return false
			}
			if d == 0 && i != len(s)-1 {
				return false
			}
		case ' ':
			if d == 0 {
				return false
			}
		}
	}
	return d == 0
}

func sImp(a, b string) string {
	if a == "true" {
		return b
	}
	if a == "false" || b == "true" {
		return "true"
	}
	return sx("=>", a, b)
}

func sIte(c, a, b string) string {
	if c == "true" {
		return a
	}
	if c == "false" {
		return b
	}
	if a == b {
		return a
	}
	return sx("ite", c, a, b)
}

func sEq(a, b string) string {
	if a == b {
		return "true"
	}
	return sx("=", a, b)
}

// mangle turns an arbitrary type string into an SMT symbol fragment.
func mangle(s string) string {
	var b strings.Builder
	for _, c := range s {
		switch {
		case c >= 'a' && c <= 'z', c >= 'A' && c <= 'Z', c >= '0' && c <= '9', c == '_':
			b.WriteRune(c)
		case c == '.' || c == '/':
			b.WriteRune('_')
		case c == '*':
			b.WriteString("P")
		case c == '[':
			b.WriteString("L")
		case c == ']':
			b.WriteString("J")
		default:
			b.WriteString("x")
		}
	}
	return b.String()
}

const modPrefix = "codeberg.org/TauCeti/mangle-go/"

func shortPkg(p *types.Package) string {
	if p == nil {
		return ""
	}
	path := p.Path()
	path = strings.TrimPrefix(path, modPrefix)
	return mangle(path)
}

// TypeCtx collects the SMT sorts needed by one verification condition.
type TypeCtx struct {
	mode      Mode
	structs   map[string]*structInfo // by sort name
	slices    map[string]string      // slice sort name -> element sort
	dynCtors  map[string]types.Type  // ctor name -> concrete type
	dynOrder  []string
	anon      map[string]string
	strLits   map[string]string // literal -> const name
	strOrder  []string
	usesStr   bool
	strBytes  bool // string contents are indexed somewhere: emit byte facts for literals
	usesF64   bool
	usesDyn   bool
	typeIDs   map[string]int
	extraSort map[string]bool // uninterpreted sorts
}

type structInfo struct {
	sort   string
	ctor   string
	fields []fieldInfo
	typ    types.Type
}

type fieldInfo struct {
	name string // Go field name
	sel  string // SMT selector
	sort string
	typ  types.Type
}

func newTypeCtx(mode Mode) *TypeCtx {
	return &TypeCtx{mode: mode, structs: map[string]*structInfo{}, slices: map[string]string{},
		dynCtors: map[string]types.Type{}, anon: map[string]string{}, strLits: map[string]string{},
		typeIDs: map[string]int{}, extraSort: map[string]bool{}}
}

func (tc *TypeCtx) idxSort() string { return "Int" }

// isBV: in mode bv every fixed-width integer type is a bit-vector, except the index type int
// (lengths, indices, loop counters), which stays a mathematical integer with overflow obligations.
func (tc *TypeCtx) isBV(t types.Type) bool {
	if tc.mode != ModeBV {
		return false
	}
	b, ok := t.Underlying().(*types.Basic)
	if !ok {
		return false
	}
	if _, _, ok := intWidth(b); !ok {
		return false
	}
	return b.Kind() != types.Int && b.Kind() != types.UntypedInt
}

func intWidth(b *types.Basic) (w int, signed bool, ok bool) {
	switch b.Kind() {
	case types.Int8:
		return 8, true, true
	case types.Int16:
		return 16, true, true
	case types.Int32, types.UntypedRune:
		return 32, true, true
	case types.Int64, types.Int, types.UntypedInt:
		return 64, true, true
	case types.Uint8:
		return 8, false, true
	case types.Uint16:
		return 16, false, true
	case types.Uint32:
		return 32, false, true
	case types.Uint64, types.Uint, types.Uintptr:
		return 64, false, true
	}
	return 0, false, false
}

func isIntType(t types.Type) bool {
	b, ok := t.Underlying().(*types.Basic)
	if !ok {
		return false
	}
	_, _, ok = intWidth(b)
	return ok
}

func isSigned(t types.Type) bool {
	b, ok := t.Underlying().(*types.Basic)
	if !ok {
		return true
	}
	_, s, _ := intWidth(b)
	return s
}

func widthOf(t types.Type) int {
	b, ok := t.Underlying().(*types.Basic)
	if !ok {
		return 64
	}
	w, _, _ := intWidth(b)
	if w == 0 {
		return 64
	}
	return w
}

func isStringType(t types.Type) bool {
	b, ok := t.Underlying().(*types.Basic)
	return ok && (b.Kind() == types.String || b.Kind() == types.UntypedString)
}

func isBoolType(t types.Type) bool {
	b, ok := t.Underlying().(*types.Basic)
	return ok && (b.Kind() == types.Bool || b.Kind() == types.UntypedBool)
}

func isFloatType(t types.Type) bool {
	b, ok := t.Underlying().(*types.Basic)
	return ok && (b.Kind() == types.Float64 || b.Kind() == types.Float32 || b.Kind() == types.UntypedFloat)
}

func isInterface(t types.Type) bool {
	_, ok := t.Underlying().(*types.Interface)
	return ok
}

// sortOf returns the SMT sort for a Go type, registering datatypes on demand.
func (tc *TypeCtx) sortOf(t types.Type) string {
	if st, ok := t.(*SetType); ok {
		if st.Multi {
			return sx("Array", tc.sortOf(st.Elem), "Int")
		}
		return sx("Array", tc.sortOf(st.Elem), "Bool")
	}
	switch u := t.Underlying().(type) {
	case *types.Basic:
		if w, _, ok := intWidth(u); ok {
			if tc.isBV(t) {
				return fmt.Sprintf("(_ BitVec %d)", w)
			}
			return "Int"
		}
		switch u.Kind() {
		case types.Bool, types.UntypedBool:
			return "Bool"
		case types.String, types.UntypedString:
			tc.usesStr = true
			return "Str"
		case types.Float64, types.Float32, types.UntypedFloat:
			tc.usesF64 = true
			return "F64"
		case types.UntypedNil, types.UnsafePointer:
			return "Int"
		}
		return "Int"
	case *types.Struct:
		return tc.structSort(t, u)
	case *types.Slice:
		es := tc.sortOf(u.Elem())
		name := "L_" + mangle(es)
		if _, ok := tc.slices[name]; !ok {
			tc.slices[name] = es
		}
		return name
	case *types.Array:
		return sx("Array", tc.idxSort(), tc.sortOf(u.Elem()))
	case *types.Pointer, *types.Map, *types.Chan, *types.Signature:
		return "Int"
	case *types.Interface:
		tc.usesDyn = true
		return "Dyn"
	case *types.Tuple:
		return "Int"
	}
	return "Int"
}

func (tc *TypeCtx) structName(t types.Type) string {
	if n, ok := t.(*types.Named); ok {
		name := n.Obj().Name()
		if ta := n.TypeArgs(); ta != nil && ta.Len() > 0 {
			name += "_" + mangle(n.String())
		}
		return "S_" + shortPkg(n.Obj().Pkg()) + "_" + name
	}
	if a, ok := t.(*types.Alias); ok {
		return tc.structName(types.Unalias(a))
	}
	key := t.String()
	if s, ok := tc.anon[key]; ok {
		return s
	}
	s := fmt.Sprintf("S_anon%d", len(tc.anon))
	tc.anon[key] = s
	return s
}

func (tc *TypeCtx) structSort(t types.Type, u *types.Struct) string {
	name := tc.structName(t)
	if _, ok := tc.structs[name]; ok {
		return name
	}
	si := &structInfo{sort: name, ctor: "mk_" + name[2:], typ: t}
	tc.structs[name] = si // register before recursing
	for i := 0; i < u.NumFields(); i++ {
		f := u.Field(i)
		fn := f.Name()
		if fn == "_" {
			fn = fmt.Sprintf("blank%d", i)
		}
		si.fields = append(si.fields, fieldInfo{name: f.Name(), sel: name[2:] + "_" + fn, sort: tc.sortOf(f.Type()), typ: f.Type()})
	}
	return name
}

func (tc *TypeCtx) structInfoOf(t types.Type) *structInfo {
	u, ok := t.Underlying().(*types.Struct)
	if !ok {
		panic(unsupported("not a struct: " + t.String()))
	}
	return tc.structs[tc.structSort(t, u)]
}

// dynCtor returns the Dyn constructor name for a concrete (non-interface) type.
func (tc *TypeCtx) dynCtor(t types.Type) string {
	tc.usesDyn = true
	name := "Dyn_" + mangle(strings.ReplaceAll(types.TypeString(t, func(p *types.Package) string { return shortPkg(p) }), modPrefix, ""))
	if _, ok := tc.dynCtors[name]; !ok {
		tc.dynCtors[name] = t
		tc.dynOrder = append(tc.dynOrder, name)
		tc.sortOf(t)
	}
	return name
}

// litOf: the contents of a string literal constant.
func (tc *TypeCtx) litOf(name string) (string, bool) {
	for s, n := range tc.strLits {
		if n == name {
			return s, true
		}
	}
	return "", false
}

func (tc *TypeCtx) strLit(s string) string {
	tc.usesStr = true
	if n, ok := tc.strLits[s]; ok {
		return n
	}
	n := fmt.Sprintf("strlit_%d", len(tc.strLits))
	tc.strLits[s] = n
	tc.strOrder = append(tc.strOrder, s)
	return n
}

func (tc *TypeCtx) intLit(v *big.Int, t types.Type) string {
	if tc.isBV(t) {
		w := widthOf(t)
		m := new(big.Int).Lsh(big.NewInt(1), uint(w))
		x := new(big.Int).Mod(v, m)
		return fmt.Sprintf("(_ bv%s %d)", x.String(), w)
	}
	if v.Sign() < 0 {
		return "(- " + new(big.Int).Neg(v).String() + ")"
	}
	return v.String()
}

func (tc *TypeCtx) intLit64(v int64, t types.Type) string {
	return tc.intLit(big.NewInt(v), t)
}

func (tc *TypeCtx) idxLit(v int64) string {
	return tc.intLit(big.NewInt(v), types.Typ[types.Int])
}

func constToBig(v constant.Value) (*big.Int, bool) {
	v = constant.ToInt(v)
	if v.Kind() != constant.Int {
		return nil, false
	}
	if i, ok := constant.Int64Val(v); ok {
		return big.NewInt(i), true
	}
	b, ok := new(big.Int).SetString(v.ExactString(), 10)
	return b, ok
}

// zero value term for a Go type.
func (tc *TypeCtx) zero(t types.Type) string {
	switch u := t.Underlying().(type) {
	case *types.Basic:
		if _, _, ok := intWidth(u); ok {
			return tc.intLit64(0, t)
		}
		switch u.Kind() {
		case types.Bool, types.UntypedBool:
			return "false"
		case types.String, types.UntypedString:
			return tc.strLit("")
		case types.Float64, types.Float32, types.UntypedFloat:
			tc.usesF64 = true
			return "f64_zero"
		}
		return "0"
	case *types.Struct:
		si := tc.structInfoOf(t)
		if len(si.fields) == 0 {
			return si.ctor
		}
		var args []string
		for _, f := range si.fields {
			args = append(args, tc.zero(f.typ))
		}
		return sx(si.ctor, args...)
	case *types.Slice:
		s := tc.sortOf(t)
		return sx("mk_"+s, tc.constArray(tc.sortOf(t.Underlying().(*types.Slice).Elem()), tc.zero(u.Elem())), tc.idxLit(0))
	case *types.Array:
		return tc.constArray(tc.sortOf(u.Elem()), tc.zero(u.Elem()))
	case *types.Interface:
		tc.usesDyn = true
		return "Dyn_nil"
	}
	return "0"
}

func (tc *TypeCtx) constArray(elemSort, v string) string {
	return sx(sx("as const", sx("Array", tc.idxSort(), elemSort)), v)
}

// declarations emits sort and datatype declarations for everything registered.
func (tc *TypeCtx) declarations() string {
	var b strings.Builder
	if tc.usesStr {
		b.WriteString("(declare-sort Str 0)\n")
	}
	if tc.usesF64 {
		b.WriteString("(declare-sort F64 0)\n(declare-const f64_zero F64)\n")
	}
	var sorts []string
	for k := range tc.extraSort {
		sorts = append(sorts, k)
	}
	sort.Strings(sorts)
	for _, k := range sorts {
		fmt.Fprintf(&b, "(declare-sort %s 0)\n", k)
	}
	// one mutually recursive block
	var names, bodies []string
	var snames []string
	for k := range tc.structs {
		snames = append(snames, k)
	}
	sort.Strings(snames)
	// force registration of dyn payload sorts before emitting (may add structs/slices)
	changed := true
	for changed {
		changed = false
		n := len(tc.structs) + len(tc.slices)
		for _, c := range append([]string{}, tc.dynOrder...) {
			tc.sortOf(tc.dynCtors[c])
		}
		if len(tc.structs)+len(tc.slices) != n {
			changed = true
		}
	}
	snames = snames[:0]
	for k := range tc.structs {
		snames = append(snames, k)
	}
	sort.Strings(snames)
	for _, k := range snames {
		si := tc.structs[k]
		names = append(names, "("+k+" 0)")
		var fs []string
		for _, f := range si.fields {
			fs = append(fs, "("+f.sel+" "+f.sort+")")
		}
		if len(fs) == 0 {
			bodies = append(bodies, "(("+si.ctor+"))")
		} else {
			bodies = append(bodies, "(("+si.ctor+" "+strings.Join(fs, " ")+"))")
		}
	}
	var lnames []string
	for k := range tc.slices {
		lnames = append(lnames, k)
	}
	sort.Strings(lnames)
	for _, k := range lnames {
		names = append(names, "("+k+" 0)")
		bodies = append(bodies, fmt.Sprintf("((mk_%s (arr_%s (Array %s %s)) (len_%s %s)))", k, k, tc.idxSort(), tc.slices[k], k, tc.idxSort()))
	}
	if tc.usesDyn {
		names = append(names, "(Dyn 0)")
		var cs []string
		cs = append(cs, "(Dyn_nil)", "(Dyn_other (dyn_tid Int) (dyn_pl Int))")
		for _, c := range tc.dynOrder {
			cs = append(cs, fmt.Sprintf("(%s (un%s %s))", c, c, tc.sortOf(tc.dynCtors[c])))
		}
		bodies = append(bodies, "("+strings.Join(cs, " ")+")")
	}
	if len(names) > 0 {
		fmt.Fprintf(&b, "(declare-datatypes (%s) (%s))\n", strings.Join(names, " "), strings.Join(bodies, "\n  "))
	}
	if tc.usesStr {
		ix := tc.idxSort()
		by := tc.sortOf(types.Typ[types.Uint8])
		fmt.Fprintf(&b, "(declare-fun g_strlen (Str) %s)\n", ix)
		fmt.Fprintf(&b, "(declare-fun g_strat (Str %s) %s)\n", ix, by)
		b.WriteString("(declare-fun g_concat (Str Str) Str)\n")
		fmt.Fprintf(&b, "(declare-fun g_substr (Str %s %s) Str)\n", ix, ix)
		b.WriteString("(declare-fun g_strlt (Str Str) Bool)\n")
		for _, s := range tc.strOrder {
			fmt.Fprintf(&b, "(declare-const %s Str) ; %q\n", tc.strLits[s], trunc(s, 40))
			fmt.Fprintf(&b, "(assert (= (g_strlen %s) %s))\n", tc.strLits[s], tc.idxLit(int64(len(s))))
			if len(s) <= 16 && tc.strBytes {
				for i := 0; i < len(s); i++ {
					fmt.Fprintf(&b, "(assert (= (g_strat %s %s) %s))\n", tc.strLits[s], tc.idxLit(int64(i)), tc.intLit64(int64(s[i]), types.Typ[types.Uint8]))
				}
			}
		}
		if len(tc.strOrder) > 1 {
			var ns []string
			for _, s := range tc.strOrder {
				ns = append(ns, tc.strLits[s])
			}
			fmt.Fprintf(&b, "(assert (distinct %s))\n", strings.Join(ns, " "))
		}
	}
	return b.String()
}

func trunc(s string, n int) string {
	if len(s) > n {
		return s[:n] + "..."
	}
	return s
}

type unsupportedErr struct{ msg string }

func (u unsupportedErr) Error() string { return "outside subset: " + u.msg }

func unsupported(msg string) unsupportedErr { return unsupportedErr{msg} }
