package main

import (
	"bytes"
	"context"
	"fmt"
	"os"
	"os/exec"
	"path/filepath"
	"runtime"
	"strings"
	"sync"
	"time"
)

type SolveResult struct {
	Status string // unsat, sat, unknown, timeout, error
	Solver string
	Time   float64
	Raw    string
	Tried  []string
}

var solverSem = make(chan struct{}, 16)

type solverSpec struct {
	name string
	args func(file string, secs int) []string
}

var solvers = []solverSpec{
	{"z3-new", func(f string, s int) []string { return []string{"z3-new", fmt.Sprintf("-T:%d", s), f} }},
	{"z3", func(f string, s int) []string { return []string{"z3", fmt.Sprintf("-T:%d", s), f} }},
	{"cvc5", func(f string, s int) []string {
		return []string{"cvc5", fmt.Sprintf("--tlimit=%d", s*1000), "--dt-nested-rec", f}
	}},
}

// lastRun: process time of the most recent solver runs, by (file, solver)
var (
	runTimes   = map[string]float64{}
	runTimesMu sync.Mutex
)

// loadFactor: how oversubscribed the machine is right now (runnable tasks per core, from /proc/loadavg; at least 1).
// Solver limits are wall-clock; when several checks (or anything else) share the cores, a solver gets a fraction of a
// core, so the limit is stretched by that factor - a busy machine must not turn into a failed proof. The instantaneous
// count of runnable tasks (4th field) reacts at once, the 1-minute average smooths it; the larger of the two is used.
func loadFactor() int {
	b, err := os.ReadFile("/proc/loadavg")
	if err != nil {
		return 1
	}
	f := strings.Fields(string(b))
	if len(f) < 4 {
		return 1
	}
	var avg float64
	fmt.Sscanf(f[0], "%f", &avg)
	var running, total int
	fmt.Sscanf(f[3], "%d/%d", &running, &total)
	n := float64(runtime.NumCPU())
	// one check keeps about one solver per core busy by itself: only what goes beyond that counts as foreign load
	x := (avg-n)/n + 1
	if y := (float64(running)-n)/n + 1; y > x {
		x = y
	}
	if x < 1 {
		return 1
	}
	if x > 40 {
		x = 40
	}
	return int(x + 0.999)
}

func runSolver(ctx context.Context, sp solverSpec, file string, secs int) (string, string) {
	solverSem <- struct{}{}
	defer func() { <-solverSem }()
	if ctx.Err() != nil {
		return "cancelled", ""
	}
	secs *= loadFactor()
	t0 := time.Now()
	defer func() {
		runTimesMu.Lock()
		runTimes[file+"\x00"+sp.name] = time.Since(t0).Seconds()
		runTimesMu.Unlock()
	}()
	a := sp.args(file, secs)
	cctx, cancel := context.WithTimeout(ctx, time.Duration(secs+2)*time.Second)
	defer cancel()
	cmd := exec.CommandContext(cctx, a[0], a[1:]...)
	var out bytes.Buffer
	cmd.Stdout = &out
	cmd.Stderr = &out
	cmd.Run()
	s := out.String()
	// old z3 prints WARNING lines (e.g. about patterns) before its answer
	for strings.HasPrefix(s, "WARNING") {
		i := strings.Index(s, "\n")
		if i < 0 {
			break
		}
		s = s[i+1:]
	}
	first := strings.TrimSpace(strings.SplitN(s, "\n", 2)[0])
	switch first {
	case "unsat", "sat", "unknown":
		return first, s
	case "timeout":
		return "timeout", s
	}
	if ctx.Err() != nil || cctx.Err() != nil {
		return "timeout", s
	}
	return "error", s
}

// solve races the installed solvers on one query. A definite answer (sat/unsat) from any solver wins.
func solve(query string, dir, name string, secs int, solverNames []string) SolveResult {
	file := filepath.Join(dir, mangle(name)+".smt2")
	if len(mangle(name)) > 150 {
		file = filepath.Join(dir, mangle(name)[:150]+fmt.Sprintf("_%d.smt2", len(name)))
	}
	os.WriteFile(file, []byte(query), 0o644)
	start := time.Now()
	ctx, cancel := context.WithCancel(context.Background())
	defer cancel()
	type ans struct {
		solver, status, raw string
	}
	ch := make(chan ans, len(solvers))
	var wg sync.WaitGroup
	usesMap := strings.Contains(query, "(_ map")
	launched := 0
	launch := func(sp solverSpec) {
		launched++
		wg.Add(1)
		go func() {
			defer wg.Done()
			st, raw := runSolver(ctx, sp, file, secs)
			ch <- ans{sp.name, st, raw}
		}()
	}
	var chosen []solverSpec
	for _, sp := range solvers {
		if len(solverNames) > 0 {
			ok := false
			for _, n := range solverNames {
				if n == sp.name {
					ok = true
				}
			}
			if !ok {
				continue
			}
		}
		if sp.name == "cvc5" && usesMap {
			continue
		}
		chosen = append(chosen, sp)
	}
	res := SolveResult{Status: "unknown"}
	if len(chosen) == 0 {
		res.Status = "error"
		return res
	}
	launch(chosen[0])
	stage := time.NewTimer(1500 * time.Millisecond)
	defer stage.Stop()
	got := 0
	rest := chosen[1:]
	for got < launched || len(rest) > 0 {
		select {
		case a := <-ch:
			got++
			res.Tried = append(res.Tried, a.solver+":"+a.status)
			if a.status == "sat" || a.status == "unsat" {
				res.Status, res.Solver, res.Raw = a.status, a.solver, a.raw
				res.Time = time.Since(start).Seconds()
				runTimesMu.Lock()
				if t, ok := runTimes[file+"\x00"+a.solver]; ok {
					res.Time = t // the deciding solver's own run time (queueing excluded)
				}
				runTimesMu.Unlock()
				cancel()
				return res
			}
			if a.status == "timeout" && res.Status != "unknown" || a.status == "timeout" {
				res.Status = "timeout"
			}
			if a.status == "error" {
				if res.Raw == "" {
					res.Raw = a.raw
				}
				if res.Status == "unknown" && len(res.Tried) == 1 {
					res.Status = "error"
				}
			}
			if a.status == "unknown" {
				res.Status = "unknown"
			}
			// first solver gave up quickly: start the others now
			for _, sp := range rest {
				launch(sp)
			}
			rest = nil
		case <-stage.C:
			for _, sp := range rest {
				launch(sp)
			}
			rest = nil
		}
	}
	res.Time = time.Since(start).Seconds()
	return res
}
