package main

// Translation of specification expressions into SMT terms in a given program state.

import (
	"os"
	"runtime/debug"
	"fmt"
	"go/constant"
	"go/types"
	"math/big"
	"strings"

	"golang.org/x/tools/go/ssa"
)

// SetType is the specification-only type set[T] / mset[T].
type SetType struct {
	Elem  types.Type
	Multi bool
}

func (s *SetType) Underlying() types.Type { return s }
func (s *SetType) String() string {
	if s.Multi {
		return "mset[" + s.Elem.String() + "]"
	}
	return "set[" + s.Elem.String() + "]"
}

// MathInt is the specification-only unbounded integer type (only meaningful in int mode).
type SpecEnv struct {
	ex     *Exec
	fr     *Frame
	st     *State
	old    *State
	vars   map[string]Value
	pkg    *types.Package
	depth  int
	bound  map[string]bool
	inOld  bool
	prevSt *State // state at the head of the current loop iteration (for prev(e) in atback clauses)
	qcount *int
	cbElem types.Type
}

type specErr struct{ msg string }

func (e specErr) Error() string { return "specification error: " + e.msg }

func sfail(f string, a ...interface{}) {
	if os.Getenv("GOCV_TRACE") != "" {
		debug.PrintStack()
	}
	panic(specErr{fmt.Sprintf(f, a...)})
}

func (ex *Exec) envFor(fr *Frame, st *State) *SpecEnv {
	env := &SpecEnv{ex: ex, fr: fr, st: st, old: fr.entry, prevSt: fr.prevSt, vars: map[string]Value{}, pkg: fnPkg(fr.fn)}
	for k, v := range fr.params {
		env.vars[k] = v
	}
	for k, v := range fr.specEnvExtra {
		env.vars[k] = v
	}
	return env
}

func (ex *Exec) specBool(fr *Frame, st *State, c *Clause) string {
	env := ex.envFor(fr, st)
	t := env.evalTerm(c.Expr, types.Typ[types.Bool])
	if !isBoolType(t.T) {
		sfail("%s:%d: clause is not boolean: %s", c.File, c.Line, c.Text)
	}
	return t.S
}

// specBoolIfLive is specBool, except that a clause naming a local that is not in scope in st reports live == false.
func (ex *Exec) specBoolIfLive(fr *Frame, st *State, c *Clause) (g string, live bool) {
	defer func() {
		if r := recover(); r != nil {
			if se, ok := r.(specErr); ok && strings.Contains(se.msg, "is not live here") {
				g, live = "", false
				return
			}
			panic(r)
		}
	}()
	return ex.specBool(fr, st, c), true
}

func (ex *Exec) specTerm(fr *Frame, st *State, c *Clause) Term {
	env := ex.envFor(fr, st)
	return env.evalTerm(c.Expr, nil)
}

func (env *SpecEnv) sub() *SpecEnv {
	n := *env
	n.vars = map[string]Value{}
	for k, v := range env.vars {
		n.vars[k] = v
	}
	return &n
}

func (env *SpecEnv) evalTerm(e Expr, hint types.Type) Term {
	v := env.eval(e, hint)
	switch x := v.(type) {
	case Term:
		return x
	case Ptr:
		// a parameter held in a cell etc.: load
		return env.ex.asTerm(env.ex.load(env.st, x.Loc), x.Loc.T)
	case Tuple:
		if len(x.Vs) > 0 {
			if t, ok := x.Vs[0].(Term); ok {
				return t
			}
		}
	}
	sfail("expression %s does not denote a value (%T)", exprString(e), v)
	return Term{}
}

func (env *SpecEnv) resolveType(te *TypeExpr) types.Type {
	switch te.Kind {
	case "ptr":
		return types.NewPointer(env.resolveType(te.Elem))
	case "slice":
		return types.NewSlice(env.resolveType(te.Elem))
	case "set":
		return &SetType{Elem: env.resolveType(te.Elem)}
	case "mset":
		return &SetType{Elem: env.resolveType(te.Elem), Multi: true}
	case "map":
		return types.NewMap(env.resolveType(te.Key), env.resolveType(te.Elem))
	}
	name := te.Name
	if i := strings.Index(name, "."); i >= 0 {
		pk := env.findPkg(name[:i])
		if pk == nil {
			sfail("unknown package %q in type %s", name[:i], name)
		}
		o := pk.Scope().Lookup(name[i+1:])
		if tn, ok := o.(*types.TypeName); ok {
			return tn.Type()
		}
		sfail("unknown type %s", name)
	}
	if o := types.Universe.Lookup(name); o != nil {
		if tn, ok := o.(*types.TypeName); ok {
			return tn.Type()
		}
	}
	if env.pkg != nil {
		if tn, ok := env.pkg.Scope().Lookup(name).(*types.TypeName); ok {
			return tn.Type()
		}
	}
	sfail("unknown type %s", name)
	return nil
}

func (env *SpecEnv) findPkg(name string) *types.Package {
	if env.pkg != nil {
		if env.pkg.Name() == name {
			return env.pkg
		}
		for _, imp := range env.pkg.Imports() {
			if imp.Name() == name {
				return imp
			}
		}
	}
	for _, p := range env.ex.prog.typesPkgs {
		if p.Name() == name && strings.HasPrefix(p.Path(), modPrefix) {
			return p
		}
	}
	for _, p := range env.ex.prog.typesPkgs {
		if p.Name() == name {
			return p
		}
	}
	return nil
}

func (env *SpecEnv) tc() *TypeCtx { return env.ex.vc.tc }

func (env *SpecEnv) intLit(v *big.Int, hint types.Type) Term {
	t := hint
	if t == nil || !isIntType(t) {
		t = types.Typ[types.Int]
	}
	return Term{S: env.tc().intLit(v, t), T: t}
}

func (env *SpecEnv) eval(e Expr, hint types.Type) Value {
	ex := env.ex
	tc := env.tc()
	switch x := e.(type) {
	case EInt:
		return env.intLit(x.Val, hint)
	case EBool:
		return Term{S: boolLit(x.Val), T: types.Typ[types.Bool]}
	case EStr:
		return Term{S: tc.strLit(x.Val), T: types.Typ[types.String]}
	case ENil:
		if hint == nil {
			return Term{S: "0", T: types.Typ[types.UntypedNil]}
		}
		if isInterface(hint) {
			tc.usesDyn = true
			return Term{S: "Dyn_nil", T: hint}
		}
		if _, isSlice := hint.Underlying().(*types.Slice); isSlice {
			return Term{S: tc.zero(hint), T: hint}
		}
		return Term{S: "0", T: hint}
	case EIdent:
		return env.ident(x.Name, hint)
	case EOld:
		if env.old == nil {
			sfail("old() not available here")
		}
		n := env.sub()
		n.st = env.old
		n.inOld = true
		// parameters inside old() denote entry values; same in our encoding (params map holds entry values)
		return n.eval(x.X, hint)
	case EUn:
		switch x.Op {
		case "&":
			// address of a package-level variable: a fixed (negative) reference
			id, ok := x.X.(EIdent)
			if !ok || env.pkg == nil {
				sfail("& is only supported on package-level variables")
			}
			v, ok := env.pkg.Scope().Lookup(id.Name).(*types.Var)
			if !ok {
				sfail("&%s: not a package-level variable", id.Name)
			}
			pk := ex.prog.pkgs[relPkgPath(v.Pkg())]
			g, ok := pk.Members[v.Name()].(*ssa.Global)
			if !ok {
				sfail("&%s: no global", id.Name)
			}
			return Term{S: fmt.Sprintf("(- %d)", ex.globalID(g)), T: types.NewPointer(v.Type())}
		case "!":
			t := env.evalTerm(x.X, types.Typ[types.Bool])
			return Term{S: sNot(t.S), T: t.T}
		case "-":
			if lit, ok := x.X.(EInt); ok {
				return env.intLit(new(big.Int).Neg(lit.Val), hint)
			}
			t := env.evalTerm(x.X, hint)
			if tc.isBV(t.T) {
				return Term{S: sx("bvneg", t.S), T: t.T}
			}
			return Term{S: sx("-", t.S), T: t.T}
		}
		sfail("unary %s unsupported", x.Op)
	case EBin:
		return env.binary(x, hint)
	case ECond:
		c := env.evalTerm(x.C, types.Typ[types.Bool])
		a := env.evalTerm(x.A, hint)
		b := env.evalTerm(x.B, a.T)
		if _, isLit := x.A.(EInt); isLit {
			a = env.evalTerm(x.A, b.T)
		}
		return Term{S: sIte(c.S, a.S, b.S), T: a.T}
	case ESel:
		return env.selector(x, hint)
	case EIndex:
		base := env.evalTerm(x.X, nil)
		switch u := base.T.Underlying().(type) {
		case *types.Slice:
			i := env.evalTerm(x.I, types.Typ[types.Int])
			so := tc.sortOf(base.T)
			return Term{S: sx("select", sx("arr_"+so, base.S), ex.toIdx(i)), T: u.Elem()}
		case *types.Array:
			i := env.evalTerm(x.I, types.Typ[types.Int])
			return Term{S: sx("select", base.S, ex.toIdx(i)), T: u.Elem()}
		case *types.Map:
			k := env.evalTerm(x.I, u.Key())
			return ex.mapGetSpec(env.st, base, k)
		case *SetType:
			k := env.evalTerm(x.I, u.Elem)
			if u.Multi {
				return Term{S: sx("select", base.S, k.S), T: types.Typ[types.Int]}
			}
			return Term{S: sx("select", base.S, k.S), T: types.Typ[types.Bool]}
		}
		if isStringType(base.T) {
			i := env.evalTerm(x.I, types.Typ[types.Int])
			ex.strAxioms()
			return Term{S: sx("g_strat", base.S, ex.toIdx(i)), T: types.Typ[types.Uint8]}
		}
		sfail("cannot index %s", base.T)
	case ESlice:
		base := env.evalTerm(x.X, nil)
		lo, hi := tc.idxLit(0), ""
		if x.Lo != nil {
			lo = ex.toIdx(env.evalTerm(x.Lo, types.Typ[types.Int]))
		}
		if isStringType(base.T) {
			if x.Hi != nil {
				hi = ex.toIdx(env.evalTerm(x.Hi, types.Typ[types.Int]))
			} else {
				hi = sx("g_strlen", base.S)
			}
			ex.strAxioms()
			return Term{S: sx("g_substr", base.S, lo, hi), T: base.T}
		}
		sl, ok := base.T.Underlying().(*types.Slice)
		if !ok {
			sfail("cannot slice %s", base.T)
		}
		so := tc.sortOf(base.T)
		if x.Hi != nil {
			hi = ex.toIdx(env.evalTerm(x.Hi, types.Typ[types.Int]))
		} else {
			hi = sx("len_"+so, base.S)
		}
		return Term{S: ex.mkSubslice(so, tc.sortOf(sl.Elem()), sx("arr_"+so, base.S), lo, hi), T: base.T}
	case ECall:
		return env.call(x, hint)
	case EQuant:
		return env.quant(x)
	case EIs:
		v := env.evalTerm(x.X, nil)
		t := env.resolveType(x.Type)
		if !isInterface(v.T) {
			sfail("'is' needs an interface value")
		}
		if !ex.dynRepresentable(t) {
			sfail("'is %s': type has no constructor", t)
		}
		return Term{S: sx("(_ is "+tc.dynCtor(t)+")", v.S), T: types.Typ[types.Bool]}
	case EAs:
		v := env.evalTerm(x.X, nil)
		t := env.resolveType(x.Type)
		if !isInterface(v.T) {
			sfail("'as' needs an interface value")
		}
		if isInterface(t) {
			return Term{S: v.S, T: t}
		}
		return Term{S: sx("un"+tc.dynCtor(t), v.S), T: t}
	}
	sfail("unsupported expression %s", exprString(e))
	return nil
}

func (env *SpecEnv) quant(x EQuant) Value {
	ex := env.ex
	n := env.sub()
	var decls []string
	var ranges []string
	for _, v := range x.Vars {
		t := env.resolveType(v.Type)
		ex.vc.counter++
		name := fmt.Sprintf("q_%s_%d", v.Name, ex.vc.counter)
		decls = append(decls, "("+name+" "+env.tc().sortOf(t)+")")
		n.vars[v.Name] = Term{S: name, T: t}
		if f := ex.rangeFact(name, t, 3); f != "true" && isIntType(t) {
			ranges = append(ranges, f)
		}
	}
	ex.vc.noDefine++ // nothing that mentions a bound variable may be hoisted into a top-level definition
	body := func() Term {
		defer func() { ex.vc.noDefine-- }()
		return n.evalTerm(x.Body, types.Typ[types.Bool])
	}()
	if !isBoolType(body.T) {
		sfail("quantifier body is not boolean: %s", exprString(x.Body))
	}
	q := "exists"
	b := sAnd(append(ranges, body.S)...)
	if x.Forall {
		q = "forall"
		b = sImp(sAnd(ranges...), body.S)
	}
	return Term{S: fmt.Sprintf("(%s (%s) %s)", q, strings.Join(decls, " "), b), T: types.Typ[types.Bool]}
}

func (env *SpecEnv) ident(name string, hint types.Type) Value {
	ex := env.ex
	// a parameter is a mutable cell: outside old() its name denotes the current value
	if env.fr != nil && !env.inOld && env.fr.fn != nil {
		if _, isParam := env.fr.params[name]; isParam {
			if a := env.fr.paramCell(name); a != nil {
				if v, ok := env.st.cells[a]; ok {
					if t, isT := v.(Term); isT {
						return t
					}
				}
			}
		}
	}
	if v, ok := env.vars[name]; ok {
		if p, isP := v.(Ptr); isP {
			return env.ex.load(env.st, p.Loc)
		}
		return v
	}
	switch name {
	case "MinInt64":
		return env.intLit(new(big.Int).SetInt64(-1<<63), types.Typ[types.Int64])
	case "MaxInt64":
		return env.intLit(new(big.Int).SetInt64(1<<63-1), types.Typ[types.Int64])
	}
	// the ghost multiset of callback invocations
	if name == "emitted" && env.fr == nil && env.cbElem != nil {
		return Term{S: env.ex.emittedGet(env.st, env.cbElem), T: &SetType{Elem: env.cbElem, Multi: true}}
	}
	if name == "emitted" && env.fr != nil {
		if et := callbackElemType(env.fr.fn); et != nil {
			return Term{S: env.ex.emittedGet(env.st, et), T: &SetType{Elem: et, Multi: true}}
		}
	}
	// iteration ghosts of map range loops: seen (current loop), seen1, seen2, ... (by loop number)
	if env.fr != nil && strings.HasPrefix(name, "seen") {
		n := env.fr.curLoop
		if len(name) > 4 {
			fmt.Sscanf(name[4:], "%d", &n)
		}
		if it, ok := env.fr.loopSeen[n]; ok {
			cur, ok := env.st.ghost[it.seen]
			if !ok {
				cur = env.ex.initialCompIn(env.st, it.seen)
			}
			return Term{S: cur, T: &SetType{Elem: it.mc.kt}}
		}
	}
	// captured variable of a function literal verified as a unit
	if env.fr != nil && env.fr.fn != nil {
		for _, fv := range env.fr.fn.FreeVars {
			if fv.Name() == name {
				src := env.st
				if env.inOld && env.old != nil {
					src = env.old
				}
				if v, ok := src.free[fv]; ok {
					return v
				}
			}
		}
	}
	// a loop that changed its form since the contracts were written (anchors.go)
	if env.fr != nil && !env.inOld && env.fr.loops != nil {
		if v, ok := env.changedLoopName(name); ok {
			return v
		}
	}
	// local variable of the frame
	if env.fr != nil && !env.inOld {
		if a := env.fr.localByName(name); a != nil {
			if v, ok := env.st.cells[a]; ok {
				if t, ok := v.(Term); ok {
					return t
				}
				return v
			}
			if env.ex.isHeapAlloc(a) {
				// an addressed struct local lives in the heap: the name denotes (a pointer to) it
				if v, ok := env.fr.vals[a]; ok {
					return v
				}
			}
			sfail("local %s is not live here", name)
		}
	}
	// package scope
	if env.pkg != nil {
		if o := env.pkg.Scope().Lookup(name); o != nil {
			return env.object(o, hint)
		}
	}
	_ = ex
	sfail("unknown identifier %q", name)
	return nil
}

func (env *SpecEnv) object(o types.Object, hint types.Type) Value {
	ex := env.ex
	switch c := o.(type) {
	case *types.Const:
		t := c.Type()
		if b, ok := t.Underlying().(*types.Basic); ok && b.Info()&types.IsUntyped != 0 {
			if hint != nil {
				t = hint
			} else {
				t = types.Default(t)
			}
		}
		switch {
		case isIntType(t):
			b, ok := constToBig(c.Val())
			if !ok {
				sfail("constant %s", c.Name())
			}
			return Term{S: env.tc().intLit(b, t), T: t}
		case isBoolType(t):
			return Term{S: boolLit(constant.BoolVal(c.Val())), T: t}
		case isStringType(t):
			return Term{S: env.tc().strLit(constant.StringVal(c.Val())), T: t}
		}
		sfail("constant %s of unsupported type %s", c.Name(), t)
	case *types.Var:
		// package-level variable
		pk := ex.prog.pkgs[relPkgPath(c.Pkg())]
		if pk == nil {
			sfail("package of %s not loaded", c.Name())
		}
		g, ok := pk.Members[c.Name()].(*ssa.Global)
		if !ok {
			sfail("%s is not a global", c.Name())
		}
		return Term{S: ex.globalGet(env.st, g), T: c.Type()}
	case *types.Func:
		fn := ex.prog.ssaProg.FuncValue(c)
		if fn == nil {
			sfail("no SSA for %s", c.Name())
		}
		return FnRef{fn}
	}
	sfail("cannot use %s here", o.Name())
	return nil
}

func (env *SpecEnv) changedLoopName(name string) (Value, bool) {
	fr := env.fr
	want, nth := name, 1
	if i := strings.Index(name, "#"); i >= 0 {
		want = name[:i]
		fmt.Sscanf(name[i+1:], "%d", &nth)
	}
	intT := types.Typ[types.Int]
	if want == "rangeindex" {
		for _, li := range fr.loops {
			if !li.reanchored || li.riOrdinal != nth || rangeIndexAlloc(li) != nil {
				continue
			}
			c := counterOf(fr.fn, li)
			if c == nil {
				return nil, false
			}
			cur, ok := env.st.cells[c].(Term)
			if !ok {
				return nil, false
			}
			if fr.atHead == li {
				return Term{S: sx("-", cur.S, "1"), T: intT}, true
			}
			return Term{S: cur.S, T: intT}, true
		}
		return nil, false
	}
	if fr.atHead == nil || !frameReanchored(fr) {
		return nil, false
	}
	a := fr.localByName(name)
	if a == nil {
		return nil, false
	}
	if li := rangeKeyLoop(fr, a); li != nil && li == fr.atHead {
		if r, ok := env.st.cells[rangeIndexAlloc(li)].(Term); ok {
			return Term{S: sx("+", r.S, "1"), T: intT}, true
		}
	}
	return nil, false
}

func (fr *Frame) localByName(name string) *ssa.Alloc {
	if a, ok := fr.synthLocals[name]; ok {
		return a
	}
	want := name
	nth := 1
	if i := strings.Index(name, "#"); i >= 0 {
		want = name[:i]
		fmt.Sscanf(name[i+1:], "%d", &nth)
	}
	if want == "rangeindex" {
		// after a re-alignment of the loops (anchors.go) the k-th range index is the one of the loop recorded as k-th
		re := false
		for _, li := range fr.loops {
			if li.reanchored {
				re = true
			}
		}
		if re {
			for _, li := range fr.loops {
				if li.riOrdinal == nth {
					return rangeIndexAlloc(li)
				}
			}
			return nil
		}
	}
	if want != "rangeindex" {
		if a, handled := anchoredLocal(fr.fn, want, nth); handled {
			return a
		}
	}
	k := 0
	for _, b := range fr.fn.Blocks {
		for _, in := range b.Instrs {
			if a, ok := in.(*ssa.Alloc); ok && a.Comment == want {
				k++
				if k == nth {
					return a
				}
			}
		}
	}
	return nil
}

func (env *SpecEnv) selector(x ESel, hint types.Type) Value {
	ex := env.ex
	tc := env.tc()
	// qualified identifier?
	if id, ok := x.X.(EIdent); ok {
		if _, isVar := env.vars[id.Name]; !isVar && (env.fr == nil || env.fr.localByName(id.Name) == nil) {
			if pk := env.findPkg(id.Name); pk != nil && (env.pkg == nil || env.pkg.Scope().Lookup(id.Name) == nil) {
				o := pk.Scope().Lookup(x.Name)
				if o == nil {
					sfail("%s.%s not found", id.Name, x.Name)
				}
				n := env.sub()
				n.pkg = pk
				return n.object(o, hint)
			}
		}
	}
	base := env.evalTerm(x.X, nil)
	bt := base.T
	if p, ok := bt.Underlying().(*types.Pointer); ok {
		stT := p.Elem()
		s, ok := stT.Underlying().(*types.Struct)
		if !ok {
			sfail("selector on pointer to %s", stT)
		}
		for i := 0; i < s.NumFields(); i++ {
			if s.Field(i).Name() == x.Name {
				comp, ft := ex.heapCompName(stT, i)
				h := ex.heapGet(env.st, comp, ft)
				return Term{S: sx("select", h, base.S), T: ft}
			}
		}
		// promoted field through embedded structs
		if obj, path, _ := types.LookupFieldOrMethod(stT, false, env.lookupPkg(stT), x.Name); obj != nil {
			if _, isVar := obj.(*types.Var); isVar && len(path) > 1 {
				comp, ft := ex.heapCompName(stT, path[0])
				cur := Term{S: sx("select", ex.heapGet(env.st, comp, ft), base.S), T: ft}
				for _, idx := range path[1:] {
					ci := tc.structInfoOf(cur.T)
					cur = Term{S: sx(ci.fields[idx].sel, cur.S), T: ci.fields[idx].typ}
				}
				return cur
			}
		}
		return env.methodValue(base, x.Name)
	}
	if s, ok := bt.Underlying().(*types.Struct); ok {
		si := tc.structInfoOf(bt)
		for i := 0; i < s.NumFields(); i++ {
			if s.Field(i).Name() == x.Name {
				return Term{S: sx(si.fields[i].sel, base.S), T: si.fields[i].typ}
			}
		}
		// promoted field of an embedded struct
		if obj, path, _ := types.LookupFieldOrMethod(bt, false, env.lookupPkg(bt), x.Name); obj != nil {
			if _, isVar := obj.(*types.Var); isVar && len(path) > 1 {
				cur := base
				for _, idx := range path {
					ci := tc.structInfoOf(cur.T)
					cur = Term{S: sx(ci.fields[idx].sel, cur.S), T: ci.fields[idx].typ}
				}
				return cur
			}
		}
	}
	return env.methodValue(base, x.Name)
}

func (env *SpecEnv) lookupPkg(t types.Type) *types.Package {
	if n, ok := types.Unalias(derefType(t)).(*types.Named); ok && n.Obj().Pkg() != nil {
		return n.Obj().Pkg()
	}
	return env.pkg
}

type boundMethod struct {
	recv Term
	fn   *ssa.Function
	name string
}

func (env *SpecEnv) methodValue(recv Term, name string) Value {
	obj, _, _ := types.LookupFieldOrMethod(recv.T, true, env.pkg, name)
	if obj == nil {
		// try any package (unexported methods of other packages)
		if n, ok := types.Unalias(derefType(recv.T)).(*types.Named); ok {
			obj, _, _ = types.LookupFieldOrMethod(recv.T, true, n.Obj().Pkg(), name)
		}
	}
	f, ok := obj.(*types.Func)
	if !ok {
		sfail("no field or method %s on %s", name, recv.T)
	}
	fn := env.ex.prog.ssaProg.FuncValue(f)
	return boundMethod{recv: recv, fn: fn, name: name}
}

func derefType(t types.Type) types.Type {
	if p, ok := t.Underlying().(*types.Pointer); ok {
		return p.Elem()
	}
	return t
}

func (env *SpecEnv) binary(x EBin, hint types.Type) Value {
	ex := env.ex
	boolT := types.Typ[types.Bool]
	switch x.Op {
	case "&&", "||", "==>", "<==>":
		a := env.evalTerm(x.L, boolT)
		b := env.evalTerm(x.R, boolT)
		if !isBoolType(a.T) || !isBoolType(b.T) {
			sfail("boolean operator %s on non-boolean operands in %s", x.Op, exprString(x))
		}
		switch x.Op {
		case "&&":
			return Term{S: sAnd(a.S, b.S), T: boolT}
		case "||":
			return Term{S: sOr(a.S, b.S), T: boolT}
		case "==>":
			return Term{S: sImp(a.S, b.S), T: boolT}
		default:
			return Term{S: sx("=", a.S, b.S), T: boolT}
		}
	case "in", "!in":
		s := env.evalTerm(x.R, nil)
		st, ok := s.T.(*SetType)
		var r string
		if ok {
			k := env.evalTerm(x.L, st.Elem)
			if st.Multi {
				r = sx(">", sx("select", s.S, k.S), "0")
			} else {
				r = sx("select", s.S, k.S)
			}
		} else if m, ok := s.T.Underlying().(*types.Map); ok {
			k := env.evalTerm(x.L, m.Key())
			r = ex.mapHasSpec(env.st, s, k)
		} else {
			sfail("'in' needs a set or map, got %s", s.T)
		}
		if x.Op == "!in" {
			r = sNot(r)
		}
		return Term{S: r, T: boolT}
	}
	// evaluate literal sides with the type of the other side
	var a, b Term
	_, lLit := x.L.(EInt)
	_, lNil := x.L.(ENil)
	if lLit || lNil {
		b = env.evalTerm(x.R, hint)
		a = env.evalTerm(x.L, b.T)
	} else {
		a = env.evalTerm(x.L, hint)
		b = env.evalTerm(x.R, a.T)
	}
	switch x.Op {
	case "==", "!=":
		var r string
		if _, ok := a.T.(*SetType); ok {
			r = sx("=", a.S, b.S)
		} else {
			// Go's mixed comparison of an interface value with a concrete one: the concrete side is boxed
			if isInterface(a.T) && !isInterface(b.T) {
				b = env.boxTo(b, a.T)
			} else if isInterface(b.T) && !isInterface(a.T) {
				a = env.boxTo(a, b.T)
			}
			if env.tc().sortOf(a.T) != env.tc().sortOf(b.T) {
				sfail("comparison of %s and %s in %s", a.T, b.T, exprString(x))
			}
			r = sEq(a.S, b.S)
		}
		if x.Op == "!=" {
			r = sNot(r)
		}
		return Term{S: r, T: boolT}
	case "<", "<=", ">", ">=":
		if isStringType(a.T) {
			switch x.Op {
			case "<":
				return Term{S: sx("g_strlt", a.S, b.S), T: boolT}
			case ">":
				return Term{S: sx("g_strlt", b.S, a.S), T: boolT}
			case "<=":
				return Term{S: sNot(sx("g_strlt", b.S, a.S)), T: boolT}
			default:
				return Term{S: sNot(sx("g_strlt", a.S, b.S)), T: boolT}
			}
		}
		if env.tc().isBV(a.T) {
			m := map[string][2]string{"<": {"bvslt", "bvult"}, "<=": {"bvsle", "bvule"}, ">": {"bvsgt", "bvugt"}, ">=": {"bvsge", "bvuge"}}
			o := m[x.Op][1]
			if isSigned(a.T) {
				o = m[x.Op][0]
			}
			return Term{S: sx(o, a.S, b.S), T: boolT}
		}
		return Term{S: sx(x.Op, a.S, b.S), T: boolT}
	case "+", "-", "*", "/", "%":
		if st, ok := a.T.(*SetType); ok {
			return env.setOp(x.Op, a, b, st)
		}
		if isStringType(a.T) && x.Op == "+" {
			ex.strAxioms()
			return Term{S: sx("g_concat", a.S, b.S), T: a.T}
		}
		if env.tc().isBV(a.T) {
			m := map[string]string{"+": "bvadd", "-": "bvsub", "*": "bvmul", "/": "bvsdiv", "%": "bvsrem"}
			o := m[x.Op]
			if !isSigned(a.T) {
				if x.Op == "/" {
					o = "bvudiv"
				} else if x.Op == "%" {
					o = "bvurem"
				}
			}
			if x.Op == "*" || x.Op == "/" || x.Op == "%" {
				return Term{S: ex.nonlinear(o, a.S, b.S, widthOf(a.T)), T: a.T}
			}
			return Term{S: sx(o, a.S, b.S), T: a.T}
		}
		m := map[string]string{"+": "+", "-": "-", "*": "*", "/": "g_tdiv", "%": "g_trem"}
		return Term{S: sx(m[x.Op], a.S, b.S), T: a.T}
	case "&", "|", "^", "<<", ">>":
		if st, ok := a.T.(*SetType); ok {
			return env.setOp(x.Op, a, b, st)
		}
		if env.tc().isBV(a.T) {
			m := map[string]string{"&": "bvand", "|": "bvor", "^": "bvxor", "<<": "bvshl", ">>": "bvashr"}
			o := m[x.Op]
			if x.Op == ">>" && !isSigned(a.T) {
				o = "bvlshr"
			}
			return Term{S: sx(o, a.S, b.S), T: a.T}
		}
		m := map[string]string{"&": "g_bitand", "|": "g_bitor", "^": "g_bitxor", "<<": "g_shl", ">>": "g_shr"}
		return Term{S: sx(m[x.Op], a.S, b.S), T: a.T}
	}
	sfail("unsupported operator %s", x.Op)
	return nil
}

// set operators: + union, * / & intersection, - difference (multiset: pointwise + and monus)
func (env *SpecEnv) setOp(op string, a, b Term, st *SetType) Value {
	if st.Multi {
		switch op {
		case "+":
			return Term{S: sx("(_ map (+ (Int Int) Int))", a.S, b.S), T: a.T}
		}
		sfail("multiset operator %s unsupported", op)
	}
	switch op {
	case "+", "|":
		return Term{S: sx("(_ map or)", a.S, b.S), T: a.T}
	case "*", "&":
		return Term{S: sx("(_ map and)", a.S, b.S), T: a.T}
	case "-":
		return Term{S: sx("(_ map and)", a.S, sx("(_ map not)", b.S)), T: a.T}
	}
	sfail("set operator %s unsupported", op)
	return nil
}

// callbackElemType: the argument type of the function's callback parameter (func(T) error).
func callbackElemType(fn *ssa.Function) types.Type {
	ps := fn.Signature.Params()
	for i := 0; i < ps.Len(); i++ {
		if sig, ok := ps.At(i).Type().Underlying().(*types.Signature); ok && sig.Params().Len() == 1 {
			return sig.Params().At(0).Type()
		}
	}
	return nil
}

// paramCell: the local cell a parameter is copied into on entry (naive-form SSA), if any.
func (fr *Frame) paramCell(name string) *ssa.Alloc {
	if fr.pcells == nil {
		fr.pcells = map[string]*ssa.Alloc{}
		if len(fr.fn.Blocks) > 0 {
			for _, in := range fr.fn.Blocks[0].Instrs {
				if st, ok := in.(*ssa.Store); ok {
					if p, ok := st.Val.(*ssa.Parameter); ok {
						if a, ok := st.Addr.(*ssa.Alloc); ok {
							fr.pcells[p.Name()] = a
						}
					}
				}
			}
		}
	}
	return fr.pcells[name]
}
