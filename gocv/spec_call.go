package main

// Calls inside specifications: builtins, spec functions, pure Go functions, lemmas.

import (
	"fmt"
	"go/types"
	"os"
	"sort"
	"strings"

	"golang.org/x/tools/go/ssa"
)

func (env *SpecEnv) call(x ECall, hint types.Type) Value {
	ex := env.ex
	tc := env.tc()
	if id, ok := x.Fn.(EIdent); ok {
		switch id.Name {
		case "len":
			v := env.evalTerm(x.Args[0], nil)
			switch v.T.Underlying().(type) {
			case *types.Slice:
				return Term{S: sx("len_"+tc.sortOf(v.T), v.S), T: types.Typ[types.Int]}
			case *types.Array:
				return Term{S: tc.idxLit(v.T.Underlying().(*types.Array).Len()), T: types.Typ[types.Int]}
			case *types.Map:
				return ex.mapLenSpec(env.st, v)
			}
			if isStringType(v.T) {
				ex.strAxioms()
				return Term{S: sx("g_strlen", v.S), T: types.Typ[types.Int]}
			}
			sfail("len of %s", v.T)
		case "sprintf":
			// fmt.Sprintf as an (uninterpreted) function of the format and the boxed arguments; see specialCall
			if len(x.Args) < 1 {
				sfail("sprintf needs a format")
			}
			f := env.evalTerm(x.Args[0], types.Typ[types.String])
			anyT := types.NewInterfaceType(nil, nil)
			tc.usesDyn = true
			arr := sx(sx("as const", sx("Array", "Int", "Dyn")), "Dyn_nil")
			for i, a := range x.Args[1:] {
				t := env.evalTerm(a, nil)
				if !isInterface(t.T) {
					t = Term{S: sx(tc.dynCtor(t.T), t.S), T: anyT}
				}
				arr = sx("store", arr, tc.idxLit(int64(i)), t.S)
			}
			return Term{S: ex.sprintfTerm(f.S, arr, len(x.Args)-1), T: types.Typ[types.String]}
		case "ret0", "ret1", "ret2":
			v := env.eval(x.Args[0], nil)
			t, ok := v.(Tuple)
			if !ok {
				sfail("%s needs a multi-value call", id.Name)
			}
			return t.Vs[int(id.Name[3]-'0')]
		case "max", "min":
			a := env.evalTerm(x.Args[0], hint)
			b := env.evalTerm(x.Args[1], a.T)
			var c string
			if tc.isBV(a.T) {
				c = sx("bvsge", a.S, b.S)
			} else {
				c = sx(">=", a.S, b.S)
			}
			if id.Name == "max" {
				return Term{S: sIte(c, a.S, b.S), T: a.T}
			}
			return Term{S: sIte(c, b.S, a.S), T: a.T}
		case "empty":
			st, ok := hint.(*SetType)
			if !ok {
				sfail("empty() needs a set context")
			}
			if st.Multi {
				return Term{S: sx(sx("as const", tc.sortOf(st)), "0"), T: st}
			}
			return Term{S: sx(sx("as const", tc.sortOf(st)), "false"), T: st}
		case "single":
			var el Term
			var st *SetType
			if h, ok := hint.(*SetType); ok {
				st = h
				el = env.evalTerm(x.Args[0], h.Elem)
			} else {
				el = env.evalTerm(x.Args[0], nil)
				st = &SetType{Elem: el.T}
			}
			return Term{S: sx("store", sx(sx("as const", tc.sortOf(st)), "false"), el.S, "true"), T: st}
		case "msingle":
			el := env.evalTerm(x.Args[0], nil)
			st := &SetType{Elem: el.T, Multi: true}
			return Term{S: sx("store", sx(sx("as const", tc.sortOf(st)), "0"), el.S, "1"), T: st}
		case "subset":
			a := env.evalTerm(x.Args[0], nil)
			b := env.evalTerm(x.Args[1], a.T)
			return Term{S: sx("=", sx("(_ map =>)", a.S, b.S), sx(sx("as const", tc.sortOf(a.T)), "true")), T: types.Typ[types.Bool]}
		case "disjoint":
			a := env.evalTerm(x.Args[0], nil)
			b := env.evalTerm(x.Args[1], a.T)
			return Term{S: sx("=", sx("(_ map and)", a.S, b.S), sx(sx("as const", tc.sortOf(a.T)), "false")), T: types.Typ[types.Bool]}
		case "at":
			// at(N, e): the value e had at the head of the current iteration of (enclosing) loop N
			if len(x.Args) != 2 || env.fr == nil {
				sfail("at(N, e) needs a loop number and an expression")
			}
			nl, isLit := x.Args[0].(EInt)
			if !isLit {
				sfail("at(N, e): N must be a literal loop number")
			}
			num := int(nl.Val.Int64())
			hs := env.fr.headSts[num]
			if hs == nil {
				sfail("at(%d, ...): loop %d has not been entered here", num, num)
			}
			n := env.sub()
			n.st = hs
			return n.eval(x.Args[1], hint)
		case "prev":
			// prev(e): the value e had at the head of this loop iteration (only in 'loop N atback' clauses)
			if env.prevSt == nil {
				sfail("prev() is only available in loop atback clauses")
			}
			n := env.sub()
			n.st = env.prevSt
			return n.eval(x.Args[0], hint)
		case "allocated":
			a := env.evalTerm(x.Args[0], nil)
			if isInterface(a.T) {
				// an interface value: the object its pointer payload (if it holds a pointer) refers to is allocated
				al := ex.allocSet(env.st)
				var cs []string
				if it, ok := a.T.Underlying().(*types.Interface); ok && it.NumMethods() > 0 {
					for _, c := range ex.prog.implementers(a.T) {
						if _, isPtr := c.Underlying().(*types.Pointer); isPtr {
							ctor := tc.dynCtor(c)
							cs = append(cs, sImp(sx("(_ is "+ctor+")", a.S), sx("select", al, sx("un"+ctor, a.S))))
						}
					}
				}
				return Term{S: sAnd(cs...), T: types.Typ[types.Bool]}
			}
			return Term{S: sx("select", ex.allocSet(env.st), a.S), T: types.Typ[types.Bool]}
		case "fresh":
			// fresh(r): r was not allocated in the old state
			if env.old == nil {
				sfail("fresh() outside a postcondition")
			}
			a := env.evalTerm(x.Args[0], nil)
			return Term{S: sAnd(sNot(sx("select", ex.allocSet(env.old), a.S)), sNot(sEq(a.S, "0"))), T: types.Typ[types.Bool]}
		case "int64", "int", "uint64", "int32", "uint8", "uint32", "byte":
			v := env.evalTerm(x.Args[0], nil)
			to := types.Universe.Lookup(id.Name).(*types.TypeName).Type()
			fbv, tbv := tc.isBV(v.T), tc.isBV(to)
			switch {
			case fbv && tbv:
				return Term{S: ex.resizeBV(v.S, widthOf(v.T), widthOf(to), isSigned(v.T)), T: to}
			case fbv && !tbv:
				return Term{S: ex.bvToInt(v.S, widthOf(v.T), isSigned(v.T)), T: to}
			case !fbv && tbv:
				return Term{S: sx(fmt.Sprintf("(_ int2bv %d)", widthOf(to)), v.S), T: to}
			}
			return Term{S: v.S, T: to}
		}
		if g := ex.prog.cs.Ghosts[relPkgPath(env.pkg)+"."+id.Name]; g != nil {
			return env.ghostRead(g, x.Args)
		}
		// spec function in this package?
		if sf := ex.prog.cs.Specs[relPkgPath(env.pkg)+"."+id.Name]; sf != nil {
			return env.applySpecFunc(sf, x.Args)
		}
		if lm := ex.prog.cs.Lemmas[relPkgPath(env.pkg)+"."+id.Name]; lm != nil {
			return env.lemmaInstance(lm, x.Args)
		}
	}
	if sel, ok := x.Fn.(ESel); ok {
		if id, ok := sel.X.(EIdent); ok {
			if pk := env.findPkg(id.Name); pk != nil {
				if _, isVar := env.vars[id.Name]; !isVar {
					if g := ex.prog.cs.Ghosts[relPkgPath(pk)+"."+sel.Name]; g != nil {
						return env.ghostRead(g, x.Args)
					}
					if sf := ex.prog.cs.Specs[relPkgPath(pk)+"."+sel.Name]; sf != nil {
						n := env.sub()
						n.pkg = pk
						// arguments are evaluated in the caller's scope
						return env.applySpecFuncIn(n, sf, x.Args)
					}
				}
			}
		}
	}
	fv := env.eval(x.Fn, nil)
	switch f := fv.(type) {
	case FnRef:
		return env.callGo(f.Fn, nil, x.Args)
	case boundMethod:
		return env.callGo(f.fn, &f.recv, x.Args)
	case Closure:
		var vals []Value
		for i, a := range x.Args {
			vals = append(vals, env.evalTerm(a, f.Fn.Params[i].Type()))
		}
		w := env.st.clone()
		w.pc = "true"
		return ex.inlineCallAt(&Frame{fn: f.Fn, depth: 0, ex: ex}, w, f.Fn, vals, f.Binds)
	}
	sfail("cannot call %s", exprString(x.Fn))
	return nil
}

// callGo inlines a pure Go function at the current state.
func (env *SpecEnv) callGo(fn *ssa.Function, recv *Term, args []Expr) Value {
	ex := env.ex
	if fn == nil {
		sfail("function has no body")
	}
	var vals []Value
	params := fn.Params
	pi := 0
	if recv != nil {
		rv := *recv
		// receiver adaptation: value receiver but pointer given or vice versa
		pt := params[0].Type()
		_, wantPtr := pt.Underlying().(*types.Pointer)
		_, havePtr := rv.T.Underlying().(*types.Pointer)
		if wantPtr && !havePtr {
			sfail("method %s needs a pointer receiver", fn.Name())
		}
		if !wantPtr && havePtr {
			rv = ex.loadStructAt(env.st, rv.S, pt)
		}
		vals = append(vals, rv)
		pi = 1
	}
	if len(args) != len(params)-pi {
		sfail("call of %s: %d arguments, want %d", fn.Name(), len(args), len(params)-pi)
	}
	for i, a := range args {
		vals = append(vals, env.evalTerm(a, params[pi+i].Type()))
	}
	// contract-based application for recursive or looping functions
	if ct := ex.prog.contractFor(fn); ct != nil && ct.Opts["inline"] == "" && (ct.Pure || !ex.prog.isLoopFree(fn) || ex.prog.isRecursive(fn)) && fn.Signature.Results().Len() == 1 {
		return ex.applyPureContract(env.st, fn, ct, vals)
	}
	st := env.st.clone()
	res := ex.inlineCall(fn, vals, st, false)
	// path condition must not leak: results are total definitions
	return res
}

// applySpecFunc evaluates/instantiates a spec function.
func (env *SpecEnv) applySpecFunc(sf *SpecFunc, args []Expr) Value {
	n := env.sub()
	if pk := env.ex.prog.typesPkgByRel(sf.PkgPath); pk != nil {
		n.pkg = pk
	}
	return env.applySpecFuncIn(n, sf, args)
}

func (env *SpecEnv) applySpecFuncIn(inner *SpecEnv, sf *SpecFunc, args []Expr) Value {
	ex := env.ex
	if len(args) != len(sf.Params) {
		sfail("spec func %s: %d arguments, want %d", sf.Name, len(args), len(sf.Params))
	}
	var argv []Term
	for i, a := range args {
		pt := inner.resolveType(sf.Params[i].Type)
		t := env.evalTerm(a, pt)
		if isInterface(pt) && !isInterface(t.T) && ex.dynRepresentable(t.T) {
			// implicit conversion of a concrete value to the interface parameter
			t = Term{S: sx(ex.vc.tc.dynCtor(t.T), t.S), T: pt}
		}
		argv = append(argv, t)
	}
	return ex.specFuncApply(inner, sf, argv)
}

func (ex *Exec) specFuncApply(inner *SpecEnv, sf *SpecFunc, argv []Term) Value {
	ret := inner.resolveType(sf.Ret)
	if sf.Body != nil && !sf.Rec {
		// macro expansion in the current state
		n := inner.sub()
		n.vars = map[string]Value{}
		n.fr = nil
		for i, p := range sf.Params {
			n.vars[p.Name] = argv[i]
		}
		n.depth = inner.depth + 1
		if n.depth > 40 {
			sfail("spec function expansion too deep at %s", sf.Name)
		}
		t := n.evalTerm(sf.Body, ret)
		if ex.probing == 0 {
			ex.autoAxioms(inner, sf, "")
		}
		return Term{S: t.S, T: ret}
	}
	// uninterpreted: function of (read heap components..., args)
	reads := ex.specReads(inner, sf)
	name := "sf_" + mangle(sf.PkgPath) + "_" + sf.Name
	var sorts, actuals []string
	for _, c := range reads {
		sorts = append(sorts, ex.compSort(c))
		actuals = append(actuals, ex.compTerm(inner.st, c))
	}
	for i, p := range sf.Params {
		sorts = append(sorts, ex.vc.tc.sortOf(inner.resolveType(p.Type)))
		actuals = append(actuals, argv[i].S)
	}
	if ex.probing > 0 {
		return Term{S: "probe!" + name, T: ret}
	}
	if sf.Body != nil && len(reads) == 0 {
		ex.defineRecSpec(inner, sf, name, reads, sorts, ret)
	} else {
		ex.vc.declareFun(name, "("+strings.Join(sorts, " ")+")", ex.vc.tc.sortOf(ret))
	}
	ex.autoAxioms(inner, sf, name)
	if len(actuals) == 0 {
		return Term{S: name, T: ret}
	}
	app := Term{S: sx(name, actuals...), T: ret}
	if len(reads) > 0 {
		ex.frameAxiom(inner, sf, name, reads, sorts, ret)
		if sf.Body != nil {
			ex.autoUnfold(inner, sf, argv, app)
		}
	}
	return app
}

func (ex *Exec) compTerm(st *State, comp string) string {
	if t, ok := st.heap[comp]; ok {
		return t
	}
	if t, ok := st.ghost[comp]; ok {
		return t
	}
	hc, ok := ex.vc.heapT[comp]
	if !ok {
		panic("unknown heap component " + comp)
	}
	if hc.isArr {
		return ex.heapGet(st, comp, hc.typ)
	}
	st.heap[comp] = ex.initialCompIn(st, comp)
	return st.heap[comp]
}

// specReads: heap components a recursive spec function depends on (computed once by a probing expansion).
var specReadsCache = map[*VC]map[string][]string{}

func (ex *Exec) specReads(inner *SpecEnv, sf *SpecFunc) []string {
	cache := specReadsCache[ex.vc]
	if cache == nil {
		cache = map[string][]string{}
		specReadsCache[ex.vc] = cache
	}
	key := sf.PkgPath + "." + sf.Name
	if r, ok := cache[key]; ok {
		return r
	}
	if sf.Body == nil && sf.Reads == nil {
		cache[key] = nil
		return nil
	}
	cache[key] = nil // recursion guard: recursive occurrences contribute nothing new
	// probe: expand the body once in a scratch state and record heap components touched
	probe := &State{pc: "true", cells: map[*ssa.Alloc]Value{}, heap: map[string]string{}, ghost: map[string]string{}}
	n := inner.sub()
	n.st = probe
	n.old = nil
	n.fr = nil
	n.vars = map[string]Value{}
	for _, p := range sf.Params {
		t := n.resolveType(p.Type)
		n.vars[p.Name] = Term{S: "probe!" + p.Name, T: t}
	}
	ex.probing++
	func() {
		defer func() {
			ex.probing--
			if r := recover(); r != nil {
				if se, ok := r.(specErr); ok {
					panic(specErr{fmt.Sprintf("in spec func %s: %s", sf.Name, se.msg)})
				}
				panic(r)
			}
		}()
		if sf.Body != nil {
			n.evalTerm(sf.Body, n.resolveType(sf.Ret))
		} else {
			n.evalTerm(sf.Reads, nil)
		}
	}()
	var reads []string
	seen := map[string]bool{}
	for c := range probe.heap {
		if !seen[c] {
			seen[c] = true
			reads = append(reads, c)
		}
	}
	// transitively: reads of callee spec functions were materialised in probe.heap through compTerm
	sort.Strings(reads)
	cache[key] = reads
	// a second pass so that mutually recursive functions see the full set
	return reads
}

// unfoldSpec returns the defining equation of a recursive spec function at given arguments in state st.
func (env *SpecEnv) unfoldSpec(e Expr) string {
	if o, isOld := e.(EOld); isOld {
		if env.old == nil {
			sfail("unfold old(...) outside a postcondition")
		}
		n := env.sub()
		n.st = env.old
		n.inOld = true
		return n.unfoldSpec(o.X)
	}
	call, ok := e.(ECall)
	if !ok {
		sfail("unfold needs a spec function application, got %s", exprString(e))
	}
	id, ok := call.Fn.(EIdent)
	if !ok {
		sfail("unfold needs a spec function application")
	}
	sf := env.ex.prog.cs.Specs[relPkgPath(env.pkg)+"."+id.Name]
	if sf == nil || sf.Body == nil {
		sfail("unfold: %s is not a defined spec function", id.Name)
	}
	inner := env.sub()
	if pk := env.ex.prog.typesPkgByRel(sf.PkgPath); pk != nil {
		inner.pkg = pk
	}
	var argv []Term
	for i, a := range call.Args {
		argv = append(argv, env.evalTerm(a, inner.resolveType(sf.Params[i].Type)))
	}
	lhs := env.ex.specFuncApply(inner, sf, argv).(Term)
	n := inner.sub()
	n.vars = map[string]Value{}
	n.fr = nil
	for i, p := range sf.Params {
		n.vars[p.Name] = argv[i]
	}
	rhs := n.evalTerm(sf.Body, lhs.T)
	return sx("=", lhs.S, rhs.S)
}

// lemmaInstance: use of a proved lemma (or axiom) at given arguments yields its statement.
func (env *SpecEnv) lemmaInstance(lm *Lemma, args []Expr) Value {
	if len(args) != len(lm.Params) {
		sfail("lemma %s: %d arguments, want %d", lm.Name, len(args), len(lm.Params))
	}
	n := env.sub()
	if pk := env.ex.prog.typesPkgByRel(lm.PkgPath); pk != nil {
		n.pkg = pk
	}
	n.fr = nil
	vars := map[string]Value{}
	for i, p := range lm.Params {
		vars[p.Name] = env.evalTerm(args[i], n.resolveType(p.Type))
	}
	n.vars = vars
	return n.evalTerm(lm.Body, types.Typ[types.Bool])
}

// defineRecSpec emits a recursive spec function as define-fun-rec over (read heap components, parameters).
func (ex *Exec) defineRecSpec(inner *SpecEnv, sf *SpecFunc, name string, reads, sorts []string, ret types.Type) {
	vc := ex.vc
	if _, ok := vc.defs[name]; ok {
		return
	}
	if vc.recBusy == nil {
		vc.recBusy = map[string]bool{}
	}
	if vc.recBusy[name] {
		return
	}
	vc.recBusy[name] = true
	defer delete(vc.recBusy, name)
	formal := &State{pc: "true", cells: map[*ssa.Alloc]Value{}, heap: map[string]string{}, ghost: map[string]string{}}
	var params []string
	for i, c := range reads {
		f := "f!" + mangle(c)
		if _, isGhost := inner.st.ghost[c]; isGhost {
			formal.ghost[c] = f
		} else {
			formal.heap[c] = f
		}
		params = append(params, "("+f+" "+sorts[i]+")")
	}
	n := inner.sub()
	n.st = formal
	n.old = nil
	n.fr = nil
	n.vars = map[string]Value{}
	for i, p := range sf.Params {
		a := "a!" + p.Name
		n.vars[p.Name] = Term{S: a, T: n.resolveType(p.Type)}
		params = append(params, "("+a+" "+sorts[len(reads)+i]+")")
	}
	vc.noDefine++
	body := n.evalTerm(sf.Body, ret)
	vc.noDefine--
	vc.defs[name] = &defn{sort: vc.tc.sortOf(ret), args: "(" + strings.Join(params, " ") + ")", def: body.S, isRec: true}
	vc.order = append(vc.order, name)
}

// autoUnfold asserts the defining equation of a heap-recursive spec function at this application
// (one level by default: applications created while unfolding are not unfolded again).
func (ex *Exec) autoUnfold(inner *SpecEnv, sf *SpecFunc, argv []Term, app Term) {
	fuel := ex.fuel
	if fuel == 0 {
		fuel = 1
	}
	if ex.fuelOverride > 0 {
		fuel = ex.fuelOverride
	}
	if os.Getenv("GOCV_DEBUG_UNFOLD") != "" {
		fmt.Fprintf(os.Stderr, "autoUnfold %s depth=%d fuel=%d noDefine=%d probing=%d app=%s\n", sf.Name, ex.unfoldDepth, fuel, ex.vc.noDefine, ex.probing, trunc(app.S, 80))
	}
	if ex.unfoldDepth >= fuel || ex.vc.noDefine > 0 || ex.probing > 0 {
		return
	}
	// applications that mention a bound variable cannot be unfolded outside their quantifier
	for _, s := range symbolsOf(app.S) {
		if strings.HasPrefix(s, "q_") || strings.HasSuffix(s, "!") || strings.HasPrefix(s, "a!") || strings.HasPrefix(s, "f!") {
			return
		}
	}
	key := "unfold:" + app.S
	if ex.unfolded == nil {
		ex.unfolded = map[string]bool{}
	}
	if ex.unfolded[key] {
		return
	}
	ex.unfolded[key] = true
	ex.unfoldDepth++
	defer func() { ex.unfoldDepth-- }()
	n := inner.sub()
	n.vars = map[string]Value{}
	n.fr = nil
	for i, p := range sf.Params {
		n.vars[p.Name] = argv[i]
	}
	rhs := n.evalTerm(sf.Body, app.T)
	fname := strings.Fields(strings.TrimPrefix(app.S, "("))[0]
	ex.vc.counter++
	ex.vc.addAxiom(fmt.Sprintf("unfold%d_%s", ex.vc.counter, fname), sx("=", app.S, rhs.S), fname)
}

// frameAxiom: a heap-recursive spec function depends only on the objects in its declared footprint
// (reads clause). Generated once per function; a metatheorem for structurally recursive definitions.
func (ex *Exec) frameAxiom(inner *SpecEnv, sf *SpecFunc, name string, reads, sorts []string, ret types.Type) {
	vc := ex.vc
	if sf.Reads == nil {
		return
	}
	axName := "frame_" + name
	for _, a := range vc.axioms {
		if a.name == axName {
			return
		}
	}
	if vc.recBusy == nil {
		vc.recBusy = map[string]bool{}
	}
	if vc.recBusy[axName] {
		return
	}
	vc.recBusy[axName] = true
	defer delete(vc.recBusy, axName)
	formal := &State{pc: "true", cells: map[*ssa.Alloc]Value{}, heap: map[string]string{}, ghost: map[string]string{}}
	var decls, f1, f2, agree []string
	for i, c := range reads {
		a, b := "f!"+mangle(c), "g!"+mangle(c)
		formal.heap[c] = a
		decls = append(decls, "("+a+" "+sorts[i]+")", "("+b+" "+sorts[i]+")")
		f1 = append(f1, a)
		f2 = append(f2, b)
		if ex.vc.heapT[c].isArr {
			agree = append(agree, sx("=", sx("select", a, "r!"), sx("select", b, "r!")))
		} else {
			agree = append(agree, sx("=", a, b))
		}
	}
	n := inner.sub()
	n.st = formal
	n.old = nil
	n.fr = nil
	n.vars = map[string]Value{}
	var ps []string
	for i, p := range sf.Params {
		a := "a!" + p.Name
		n.vars[p.Name] = Term{S: a, T: n.resolveType(p.Type)}
		decls = append(decls, "("+a+" "+sorts[len(reads)+i]+")")
		ps = append(ps, a)
	}
	vc.noDefine++
	ex.unfoldDepth += 100
	fp := n.evalTerm(sf.Reads, nil)
	ex.unfoldDepth -= 100
	vc.noDefine--
	app1 := sx(name, append(append([]string{}, f1...), ps...)...)
	app2 := sx(name, append(append([]string{}, f2...), ps...)...)
	same := fmt.Sprintf("(forall ((r! Int)) (=> (select %s r!) %s))", fp.S, sAnd(agree...))
	ax := fmt.Sprintf("(forall (%s) (! (=> %s (= %s %s)) :pattern (%s %s)))", strings.Join(decls, " "), same, app1, app2, app1, app2)
	vc.addAxiom(axName, ax, name)
	// value at nil (the base case of the definition), for every heap
	if len(sf.Params) == 1 && sf.Body != nil {
		if _, isPtr := n.resolveType(sf.Params[0].Type).Underlying().(*types.Pointer); isPtr {
			n2 := n.sub()
			n2.vars[sf.Params[0].Name] = Term{S: "0", T: n.resolveType(sf.Params[0].Type)}
			vc.noDefine++
			ex.unfoldDepth += 100
			base := n2.evalTerm(sf.Body, ret)
			ex.unfoldDepth -= 100
			vc.noDefine--
			var hdecls []string
			for i, c := range reads {
				hdecls = append(hdecls, "(f!"+mangle(c)+" "+sorts[i]+")")
			}
			appNil := sx(name, append(append([]string{}, f1...), "0")...)
			vc.addAxiom("nil_"+name, fmt.Sprintf("(forall (%s) (! (= %s %s) :pattern (%s)))", strings.Join(hdecls, " "), appNil, base.S, appNil), name)
		}
	}
	vc.note("frame axiom for recursive spec function %s (depends only on its declared footprint)", sf.Name)
}

// autoAxioms adds the package's 'auto' axioms that mention the uninterpreted spec function sf, universally quantified.
func (ex *Exec) autoAxioms(inner *SpecEnv, sf *SpecFunc, fname string) {
	if ex.autoDone == nil {
		ex.autoDone = map[string]bool{}
	}
	for _, k := range sortedKeys(ex.prog.cs.Lemmas) {
		lm := ex.prog.cs.Lemmas[k]
		if !lm.Auto || ex.autoDone[k] {
			continue
		}
		// an axiom of the spec function's own package that calls it, or an axiom elsewhere that calls it qualified
		last := sf.PkgPath
		if i := strings.LastIndex(last, "/"); i >= 0 {
			last = last[i+1:]
		}
		if !(lm.PkgPath == sf.PkgPath && mentionsCall(lm.Body, sf.Name)) && !(lm.PkgPath != sf.PkgPath && lm.Axiom && mentionsQualifiedCall(lm.Body, last, sf.Name)) {
			continue
		}
		if !lm.Axiom && ex.provingLemma != nil && (lm.File != ex.provingLemma.File || lm.Line >= ex.provingLemma.Line) {
			// a proved lemma may serve as a background fact only where that is not circular: in function
			// obligations, and in the proofs of lemmas stated after it in the same file
			continue
		}
		if lm.PkgPath != sf.PkgPath && ex.prog.typesPkgByRel(lm.PkgPath) == nil {
			continue // the axiom's own package is not part of this run: its names cannot be resolved, and its callers are not here either
		}
		ex.autoDone[k] = true
		n := inner.sub()
		if pk := ex.prog.typesPkgByRel(lm.PkgPath); pk != nil {
			n.pkg = pk
		}
		n.fr = nil
		n.vars = map[string]Value{}
		var decls []string
		for _, p := range lm.Params {
			t := n.resolveType(p.Type)
			ex.vc.counter++
			bv := fmt.Sprintf("q_%s_%d", p.Name, ex.vc.counter)
			decls = append(decls, "("+bv+" "+ex.vc.tc.sortOf(t)+")")
			n.vars[p.Name] = Term{S: bv, T: t}
		}
		ex.vc.noDefine++
		body := n.evalTerm(lm.Body, types.Typ[types.Bool])
		ex.vc.noDefine--
		if fname == "" {
			ex.vc.addAxiom("auto_"+mangle(k), fmt.Sprintf("(forall (%s) %s)", strings.Join(decls, " "), body.S))
		} else {
			ex.vc.addAxiom("auto_"+mangle(k), fmt.Sprintf("(forall (%s) %s)", strings.Join(decls, " "), body.S), fname)
		}
	}
}

// ghost components: name(x) reads the ghost map at x in the current state.
func (ex *Exec) ghostComp(env *SpecEnv, g *GhostDecl) (comp string, pt, rt types.Type) {
	n := env.sub()
	if pk := ex.prog.typesPkgByRel(g.PkgPath); pk != nil {
		n.pkg = pk
	}
	pt = n.resolveType(g.Params[0].Type)
	rt = n.resolveType(g.Ret)
	comp = "$g:" + g.PkgPath + "." + g.Name
	if _, ok := ex.vc.heapT[comp]; !ok {
		ex.vc.heapT[comp] = heapComp{idx: ex.vc.tc.sortOf(pt), sort: ex.vc.tc.sortOf(rt), isArr: true, typ: rt}
	}
	return
}

func (ex *Exec) ghostCur(st *State, comp string) string {
	if t, ok := st.ghost[comp]; ok {
		return t
	}
	n := ex.initialCompIn(st, comp)
	st.ghost[comp] = n
	return n
}

// boxTo: implicit conversion of a concrete value to an interface-typed ghost index / parameter.
func (env *SpecEnv) boxTo(t Term, pt types.Type) Term {
	if isInterface(pt) && !isInterface(t.T) && env.ex.dynRepresentable(t.T) {
		env.tc().usesDyn = true
		return Term{S: sx(env.tc().dynCtor(t.T), t.S), T: pt}
	}
	return t
}

func (env *SpecEnv) ghostRead(g *GhostDecl, args []Expr) Value {
	if len(args) != 1 {
		sfail("ghost %s takes one argument", g.Name)
	}
	comp, pt, rt := env.ex.ghostComp(env, g)
	a := env.boxTo(env.evalTerm(args[0], pt), pt)
	return Term{S: sx("select", env.ex.ghostCur(env.st, comp), a.S), T: rt}
}

// ghostTarget: is this modifies target an application of a ghost component? returns component and index term.
func (ex *Exec) ghostTarget(pre *SpecEnv, e Expr) (comp string, idx string, rt types.Type, ok bool) {
	c, isCall := e.(ECall)
	if !isCall || len(c.Args) != 1 {
		return
	}
	var g *GhostDecl
	switch f := c.Fn.(type) {
	case EIdent:
		g = ex.prog.cs.Ghosts[relPkgPath(pre.pkg)+"."+f.Name]
	case ESel:
		if id, isId := f.X.(EIdent); isId {
			if pk := pre.findPkg(id.Name); pk != nil {
				g = ex.prog.cs.Ghosts[relPkgPath(pk)+"."+f.Name]
			}
		}
	}
	if g == nil {
		return
	}
	var pt types.Type
	comp, pt, rt = ex.ghostComp(pre, g)
	idx = pre.boxTo(pre.evalTerm(c.Args[0], pt), pt).S
	return comp, idx, rt, true
}
