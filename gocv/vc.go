package main

// VC: the growing passive-form description of one function, plus obligations.

import (
	"fmt"
	"go/token"
	"go/types"
	"sort"
	"strings"

	"golang.org/x/tools/go/ssa"
)

type Obligation struct {
	Name   string
	Kind   string // ensures, loop.init, loop.step, call.pre, index, nil, div, assert, panic, frame, overflow, presat, lemma, variant, cover
	PC     string
	Goal   string
	Pos    token.Position
	Text   string // human readable
	Expect string // "unsat" (default) or "sat" for vacuity guards
	Fn     string
	// model extraction hints: name -> SMT term to evaluate
	Inputs  []ModelVar
	Outputs []ModelVar
}

type ModelVar struct {
	Name string // Go-level name (parameter)
	Term string
	Type types.Type
}

type defn struct {
	sort  string
	def   string // "" for plain declarations
	args  string // for declare-fun: "(Int Int)"
	deps  []string
	isRec bool // define-fun-rec: args holds the formal parameter list
}

type axiom struct {
	name string
	text string // full formula
	keys []string
}

type VC struct {
	tc       *TypeCtx
	mode     Mode
	defs     map[string]*defn
	order    []string
	axioms   []*axiom
	counter  int
	obls     []*Obligation
	notes    []string // unmodelled things, uncontracted callees
	noteSet  map[string]bool
	heapT    map[string]heapComp
	prog     *Program
	noDefine int
	recBusy  map[string]bool
}

type heapComp struct {
	idx   string // index sort ("" = Int)
	sort  string // element sort
	typ   types.Type
	isArr bool // indexed by ref
}

func newVC(p *Program, mode Mode) *VC {
	return &VC{tc: newTypeCtx(mode), mode: mode, defs: map[string]*defn{}, noteSet: map[string]bool{}, heapT: map[string]heapComp{}, prog: p}
}

func (vc *VC) note(f string, a ...interface{}) {
	s := fmt.Sprintf(f, a...)
	if !vc.noteSet[s] {
		vc.noteSet[s] = true
		vc.notes = append(vc.notes, s)
	}
}

func (vc *VC) name(prefix string) string {
	vc.counter++
	return fmt.Sprintf("%s_%d", mangle(prefix), vc.counter)
}

// fresh declares an unconstrained constant.
func (vc *VC) fresh(prefix, sort string) string {
	n := vc.name(prefix)
	vc.defs[n] = &defn{sort: sort}
	vc.order = append(vc.order, n)
	return n
}

// define declares a constant equal to term (kept small; atoms are returned unchanged).
func (vc *VC) define(prefix, sort, term string) string {
	if !strings.ContainsAny(term, " (") || vc.noDefine > 0 {
		return term
	}
	n := vc.name(prefix)
	vc.defs[n] = &defn{sort: sort, def: term}
	vc.order = append(vc.order, n)
	return n
}

func (vc *VC) declareFun(name, args, ret string) {
	if _, ok := vc.defs[name]; ok {
		return
	}
	vc.defs[name] = &defn{sort: ret, args: args}
	vc.order = append(vc.order, name)
}

func (vc *VC) declareConst(name, sort string) {
	if _, ok := vc.defs[name]; ok {
		return
	}
	vc.defs[name] = &defn{sort: sort}
	vc.order = append(vc.order, name)
}

func (vc *VC) addAxiom(name, text string, keys ...string) {
	for _, a := range vc.axioms {
		if a.name == name {
			return
		}
	}
	vc.axioms = append(vc.axioms, &axiom{name: name, text: text, keys: keys})
}

func (vc *VC) oblige(o *Obligation) {
	vc.obls = append(vc.obls, o)
}

func symbolsOf(s string) []string {
	var out []string
	i := 0
	for i < len(s) {
		c := s[i]
		if c == '(' || c == ')' || c == ' ' || c == '\n' || c == '\t' {
			i++
			continue
		}
		if c == '|' {
			j := strings.IndexByte(s[i+1:], '|')
			if j < 0 {
				break
			}
			out = append(out, s[i:i+j+2])
			i += j + 2
			continue
		}
		j := i
		for j < len(s) && s[j] != '(' && s[j] != ')' && s[j] != ' ' && s[j] != '\n' && s[j] != '\t' {
			j++
		}
		out = append(out, s[i:j])
		i = j
	}
	return out
}

// query builds the SMT-LIB text for one obligation (cone of influence only).
func (vc *VC) query(o *Obligation, produceModels bool) string {
	need := map[string]bool{}
	seenSym := map[string]bool{}
	var work []string
	add := func(text string) {
		for _, s := range symbolsOf(text) {
			seenSym[s] = true
			if _, ok := vc.defs[s]; ok && !need[s] {
				need[s] = true
				work = append(work, s)
			}
		}
	}
	add(o.PC)
	add(o.Goal)
	if _, ok := vc.defs["pf_time_Time_UnixNano"]; ok {
		var extra []ModelVar
		for _, mv := range o.Inputs {
			if mv.Type != nil && mv.Type.String() == "time.Time" && !strings.HasSuffix(mv.Name, "#nano") {
				extra = append(extra, ModelVar{Name: mv.Name + "#nano", Term: sx("pf_time_Time_UnixNano", mv.Term), Type: types.Typ[types.Int64]})
			}
		}
		have := map[string]bool{}
		for _, mv := range o.Inputs {
			have[mv.Name] = true
		}
		for _, e := range extra {
			if !have[e.Name] {
				o.Inputs = append(o.Inputs, e)
			}
		}
	}
	for _, mv := range o.Inputs {
		add(mv.Term)
	}
	usedAx := map[int]bool{}
	for {
		for len(work) > 0 {
			s := work[len(work)-1]
			work = work[:len(work)-1]
			d := vc.defs[s]
			if d.def != "" {
				add(d.def)
			}
		}
		progress := false
		for i, a := range vc.axioms {
			if usedAx[i] {
				continue
			}
			hit := len(a.keys) == 0
			for _, k := range a.keys {
				if need[k] || seenSym[k] {
					hit = true
					break
				}
			}
			if hit && o.Expect == "sat" && strings.Contains(a.text, "(forall") {
				// vacuity guards are satisfiability queries: quantified background facts are left out
				// (this can only make the guard easier to satisfy, never harder)
				usedAx[i] = false
				continue
			}
			if hit {
				usedAx[i] = true
				add(a.text)
				progress = true
			}
		}
		if !progress && len(work) == 0 {
			break
		}
	}
	var b strings.Builder
	if produceModels {
		b.WriteString("(set-option :produce-models true)\n")
	}
	b.WriteString("(set-logic ALL)\n")
	b.WriteString(vc.tc.declarations())
	b.WriteString(vc.prelude())
	for _, n := range vc.order {
		if !need[n] {
			continue
		}
		d := vc.defs[n]
		if d.isRec {
			fmt.Fprintf(&b, "(define-fun-rec %s %s %s %s)\n", n, d.args, d.sort, d.def)
		} else if d.args != "" {
			fmt.Fprintf(&b, "(declare-fun %s %s %s)\n", n, d.args, d.sort)
		} else if d.def != "" {
			fmt.Fprintf(&b, "(define-fun %s () %s %s)\n", n, d.sort, d.def)
		} else {
			fmt.Fprintf(&b, "(declare-const %s %s)\n", n, d.sort)
		}
	}
	for i, a := range vc.axioms {
		if usedAx[i] {
			fmt.Fprintf(&b, "(assert %s) ; %s\n", a.text, a.name)
		}
	}
	fmt.Fprintf(&b, "(assert %s)\n", o.PC)
	if o.Expect != "sat" {
		fmt.Fprintf(&b, "(assert (not %s))\n", o.Goal)
	} else if o.Goal != "" && o.Goal != "true" {
		fmt.Fprintf(&b, "(assert %s)\n", o.Goal)
	}
	b.WriteString("(check-sat)\n")
	if produceModels && len(o.Inputs) > 0 {
		var ts []string
		for _, mv := range o.Inputs {
			ts = append(ts, mv.Term)
		}
		fmt.Fprintf(&b, "(get-value (%s))\n", strings.Join(ts, " "))
	}
	return b.String()
}

func (vc *VC) prelude() string {
	var b strings.Builder
	{
		b.WriteString("(define-fun g_abs ((x Int)) Int (ite (>= x 0) x (- x)))\n")
		b.WriteString("(define-fun g_tdiv ((x Int) (y Int)) Int (ite (= (>= x 0) (>= y 0)) (div (g_abs x) (g_abs y)) (- (div (g_abs x) (g_abs y)))))\n")
		b.WriteString("(define-fun g_trem ((x Int) (y Int)) Int (- x (* y (g_tdiv x y))))\n")
		b.WriteString("(declare-fun g_bitand (Int Int) Int)\n(declare-fun g_bitor (Int Int) Int)\n(declare-fun g_bitxor (Int Int) Int)\n(declare-fun g_shl (Int Int) Int)\n(declare-fun g_shr (Int Int) Int)\n")
	}
	b.WriteString("(define-fun g_max ((x Int) (y Int)) Int (ite (>= x y) x y))\n")
	b.WriteString("(define-fun g_min ((x Int) (y Int)) Int (ite (<= x y) x y))\n")
	return b.String()
}

// ---------------------------------------------------------------------------
// Program: loaded packages, SSA and contracts.

type Program struct {
	ssaProg        *ssa.Program
	fset           *token.FileSet
	funcs          map[string]*ssa.Function // key: pkgrel.Recv.Name or pkgrel.Name
	cs             *ContractSet
	pkgs           map[string]*ssa.Package // by rel path
	typesPkgs      map[string]*types.Package
	loopFree       map[*ssa.Function]bool
	implCache      map[string][]types.Type
	mutableGlobals map[*ssa.Global]bool
	globalByComp   map[string]*ssa.Global
}

func relPkgPath(p *types.Package) string {
	if p == nil {
		return ""
	}
	if strings.HasPrefix(p.Path(), modPrefix) {
		return strings.TrimPrefix(p.Path(), modPrefix)
	}
	return p.Path()
}

func funcKey(fn *ssa.Function) string {
	if fn == nil {
		return ""
	}
	if o := fn.Origin(); o != nil {
		fn = o
	}
	if fn.Parent() != nil {
		// a function literal is named after its outermost enclosing function, receiver type included:
		// factstore.TemporalFactStoreAdapter.GetFacts$1 (go/ssa calls it GetFacts$1, which every GetFacts method shares)
		root := fn
		for root.Parent() != nil {
			root = root.Parent()
		}
		return funcKey(root) + strings.TrimPrefix(fn.Name(), root.Name())
	}
	pkg := ""
	if fn.Pkg != nil {
		pkg = relPkgPath(fn.Pkg.Pkg)
	} else if fn.Object() != nil && fn.Object().Pkg() != nil {
		pkg = relPkgPath(fn.Object().Pkg())
	}
	if fn.Signature.Recv() != nil {
		rt := fn.Signature.Recv().Type()
		if p, ok := rt.(*types.Pointer); ok {
			rt = p.Elem()
		}
		if n, ok := rt.(*types.Named); ok {
			return pkg + "." + n.Obj().Name() + "." + fn.Name()
		}
	}
	return pkg + "." + fn.Name()
}

func sortedKeys[V any](m map[string]V) []string {
	var ks []string
	for k := range m {
		ks = append(ks, k)
	}
	sort.Strings(ks)
	return ks
}

// fnPkg: the types package a function belongs to (instantiations and closures have no ssa package of their own).
func fnPkg(fn *ssa.Function) *types.Package {
	if fn.Pkg != nil {
		return fn.Pkg.Pkg
	}
	if o := fn.Origin(); o != nil && o.Pkg != nil {
		return o.Pkg.Pkg
	}
	if fn.Object() != nil {
		return fn.Object().Pkg()
	}
	if fn.Parent() != nil {
		return fnPkg(fn.Parent())
	}
	return nil
}
