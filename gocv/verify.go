package main

// Per-function verification: builds the VC and its obligations.

import (
	"fmt"
	"go/token"
	"go/types"
	"sort"
	"strings"

	"golang.org/x/tools/go/ssa"
	"golang.org/x/tools/go/ssa/ssautil"
)

type FuncResult struct {
	Key   string
	VC    *VC
	Err   error // outside subset / specification error
	Obls  []*Obligation
	Sweep bool
	Lemma bool
	Notes []string
}

func (p *Program) newTopFrame(ex *Exec, fn *ssa.Function, ct *Contract) (*Frame, *State) {
	fr := &Frame{fn: fn, vals: map[ssa.Value]Value{}, top: true, contract: ct, params: map[string]Value{}, oblCount: map[string]int{}, ex: ex, specEnvExtra: map[string]Value{}}
	ex.top = fr
	st := &State{pc: "true", cells: map[*ssa.Alloc]Value{}, heap: map[string]string{}, ghost: map[string]string{}}
	for i, prm := range fn.Params {
		name := prm.Name()
		if name == "" || name == "_" {
			name = fmt.Sprintf("p%d", i)
		}
		var v Value
		switch u := prm.Type().Underlying().(type) {
		case *types.Pointer:
			if _, ok := u.Elem().Underlying().(*types.Struct); !ok {
				panic(unsupported("parameter of type " + prm.Type().String()))
			}
			r := ex.vc.fresh("p_"+name, "Int")
			ex.refFact(st, r)
			ex.assume(st, sx("<=", "0", r))
			v = Term{S: r, T: prm.Type()}
			ex.addPointeeModel(fr, st, name, r, prm.Type())
		case *types.Signature:
			v = Term{S: ex.vc.fresh("p_"+name, "Int"), T: prm.Type()}
		default:
			v = ex.havocValue(st, "p_"+name, prm.Type())
		}
		fr.vals[prm] = v
		fr.params[name] = v
	}
	if ct != nil && len(ct.Params) > 0 {
		off := 0
		if fn.Signature.Recv() != nil {
			off = 1
		}
		for i, n := range ct.Params {
			if off+i < len(fn.Params) {
				fr.params[n] = fr.vals[fn.Params[off+i]]
			}
		}
	}
	// a function literal verified on its own: each captured variable has an arbitrary value of its type at the call; the
	// contract can name it (reads its current value)
	for _, fv := range fn.FreeVars {
		pt, ok := fv.Type().(*types.Pointer)
		if !ok {
			panic(unsupported("captured variable of type " + fv.Type().String()))
		}
		if st.free == nil {
			st.free = map[*ssa.FreeVar]Value{}
		}
		var v Value
		switch u := pt.Elem().Underlying().(type) {
		case *types.Pointer:
			if _, isStruct := u.Elem().Underlying().(*types.Struct); !isStruct {
				// e.g. a *T local captured by reference where T is not a struct: opaque
				v = Term{S: ex.vc.fresh("fv_"+fv.Name(), "Int"), T: pt.Elem()}
			} else {
				r := ex.vc.fresh("fv_"+fv.Name(), "Int")
				ex.refFact(st, r)
				ex.assume(st, sx("<=", "0", r))
				v = Term{S: r, T: pt.Elem()}
			}
		case *types.Signature:
			v = Term{S: ex.vc.fresh("fv_"+fv.Name(), "Int"), T: pt.Elem()}
		default:
			v = ex.havocValue(st, "fv_"+fv.Name(), pt.Elem())
		}
		st.free[fv] = v
		fr.vals[fv] = Ptr{Location{Root: FreeRoot{fv}, T: pt.Elem(), RT: pt.Elem()}}
	}
	return fr, st
}

func (p *Program) verifyFunc(fn *ssa.Function, ct *Contract, sweepOnly bool) (res *FuncResult) {
	key := funcKey(fn)
	mode := ModeInt
	if ct != nil {
		mode = ct.Mode
	}
	vc := newVC(p, mode)
	res = &FuncResult{Key: key, VC: vc, Sweep: sweepOnly}
	ex := &Exec{vc: vc, prog: p, safety: true}
	if ct != nil && ct.Opts["nosafety"] != "" {
		ex.safety = false
	}
	if ct != nil && ct.Opts["elemptr"] != "" {
		ex.allowEscapingElemPtr = true
	}
	defer func() {
		if r := recover(); r != nil {
			switch e := r.(type) {
			case unsupportedErr:
				res.Err = e
			case specErr:
				res.Err = e
			default:
				panic(r)
			}
		}
		res.Obls = vc.obls
		res.Notes = vc.notes
	}()
	if ct != nil && ct.Opts["fuel"] != "" {
		fmt.Sscanf(ct.Opts["fuel"], "%d", &ex.fuel)
	}
	if ct != nil && ct.Trusted {
		// the body of a trusted function is not executed; what can be decided on its code alone still is
		for _, g := range ct.Guards {
			if g.Kind == "nocall" || g.Kind == "noread" {
				p.noCallObligation(vc, fn, key, g)
			}
		}
		return res
	}
	fr, st := p.newTopFrame(ex, fn, ct)
	if ct != nil {
		for _, r := range ct.Requires {
			ex.assume(st, ex.specBool(fr, st, r))
		}
	}
	fr.entry = st.clone()
	if ct != nil {
		ex.applyUnfolds(fr, st, ct)
		for _, u := range ct.Uses {
			if g, ok := ex.trySpecBool(fr, st, u); ok {
				ex.assume(st, g)
			}
		}
	}
	// vacuity guard: precondition satisfiable
	if ct != nil && len(ct.Requires) > 0 {
		o := ex.obligeNamed(st, key+"#pre-sat", "presat", "true", "precondition is satisfiable", fn.Pos())
		o.Expect = "sat"
	}
	ex.run(fr, st.clone())
	// loop clauses for a loop the function does not have check nothing: report them
	if ct != nil {
		have := map[int]bool{}
		for _, li := range fr.loops {
			have[li.number] = true
		}
		var nums []int
		for n := range ct.Loops {
			nums = append(nums, n)
		}
		sort.Ints(nums)
		for _, n := range nums {
			if !have[n] {
				vc.oblige(&Obligation{Name: fmt.Sprintf("%s#loop%d.noloop", key, n), Kind: "static", PC: "true", Goal: "false", Text: fmt.Sprintf("the contract has clauses for loop %d but the function has only %d loops", n, len(have)), Fn: key})
			}
		}
	}
	// a guard that matched no site checks nothing: report it instead of passing silently
	if ct != nil {
		for _, g := range ct.Guards {
			if g.Kind == "sort" {
				continue
			}
			if g.Kind == "nocall" || g.Kind == "noread" {
				// "guard nocall F: false": the function (with its function literals) contains no call of F - decided on the code
				p.noCallObligation(vc, fn, key, g)
				continue
			}
			if ex.top.oblCount[fmt.Sprintf("guardhit:%p", g)] == 0 {
				vc.oblige(&Obligation{Name: fmt.Sprintf("%s#guard(%s %s).nosite", key, g.Kind, g.Name), Kind: "static", PC: "true", Goal: "false", Text: "guard matches no site in the function: " + g.C.Text, Fn: key})
			}
		}
	}
	// returns
	sort.SliceStable(fr.rets, func(i, j int) bool { return fr.rets[i].pos < fr.rets[j].pos })
	if ct != nil && len(fr.rets)*(len(ct.Ensures)+1) > 48 && len(fr.rets) > 1 && ct.Opts["perreturn"] == "" {
		// many exits: check each postcondition once over the joined exit state
		var ins []edgeState
		for _, r := range fr.rets {
			ins = append(ins, edgeState{nil, r.st})
		}
		merged := ex.mergeStates(ins).clone()
		var vals []Value
		for i := range fr.rets[0].vals {
			var vs []Value
			var gs []string
			for _, r := range fr.rets {
				vs = append(vs, r.vals[i])
				gs = append(gs, r.st.pc)
			}
			vals = append(vals, ex.mergeValues(vs, gs, fmt.Sprintf("ret%d", i)))
		}
		fr.rets = []retInfo{{st: merged, vals: vals, pos: fn.Pos()}}
	}
	for i, r := range fr.rets {
		ex.checkReturn(fr, ct, r, i+1)
	}
	if len(fr.rets) == 0 && ct != nil && len(ct.Ensures) > 0 {
		res.Err = fmt.Errorf("function has no return path but has postconditions")
	}
	return res
}

// trySpecBool evaluates a clause; clauses that mention locals not live at this point are skipped.
func (ex *Exec) trySpecBool(fr *Frame, st *State, c *Clause) (g string, ok bool) {
	defer func() {
		if r := recover(); r != nil {
			if se, isSpec := r.(specErr); isSpec && (strings.Contains(se.msg, "not live") || strings.Contains(se.msg, "unknown identifier")) {
				ok = false
				ex.vc.note("clause skipped at one program point (%s): %s", se.msg, c.Text)
				return
			}
			panic(r)
		}
	}()
	return ex.specBool(fr, st, c), true
}

func (ex *Exec) applyUnfolds(fr *Frame, st *State, ct *Contract) {
	env := ex.envFor(fr, st)
	for _, u := range ct.Unfold {
		ex.assume(st, env.unfoldSpec(u.Expr))
	}
	// unfoldat n1, n2: every heap-recursive spec function of the package over that node type is unfolded at
	// the nodes (as they were at entry) in this state.
	if len(ct.UnfoldAt) == 0 {
		return
	}
	pre := ex.envFor(fr, fr.entry)
	pre.old = nil
	for _, u := range ct.UnfoldAt {
		node := pre.evalTerm(u.Expr, nil)
		ex.unfoldAllAt(env, ct.PkgPath, node)
	}
}

// unfoldAllAt unfolds every heap-recursive one-argument spec function of the package at node, in env's state.
func (ex *Exec) unfoldAllAt(env *SpecEnv, pkgPath string, node Term) {
	for _, k := range sortedKeys(ex.prog.cs.Specs) {
		sf := ex.prog.cs.Specs[k]
		if sf.PkgPath != pkgPath || !sf.Rec || sf.Body == nil || len(sf.Params) != 1 {
			continue
		}
		inner := env.sub()
		if pk := ex.prog.typesPkgByRel(sf.PkgPath); pk != nil {
			inner.pkg = pk
		}
		pt := inner.resolveType(sf.Params[0].Type)
		if !types.Identical(pt, node.T) {
			continue
		}
		if len(ex.specReads(inner, sf)) == 0 {
			continue
		}
		save := ex.unfoldDepth
		ex.unfoldDepth = 0
		ex.fuelOverride = 1
		ex.specFuncApply(inner, sf, []Term{node})
		ex.fuelOverride = 0
		ex.unfoldDepth = save
	}
}

func (ex *Exec) checkReturn(fr *Frame, ct *Contract, r retInfo, ord int) {
	if ct == nil {
		return
	}
	st := r.st
	key := funcKey(fr.fn)
	// bind results
	extra := map[string]Value{}
	env0 := &SpecEnv{vars: extra}
	var res Value
	switch len(r.vals) {
	case 0:
		res = Tuple{}
	case 1:
		res = r.vals[0]
	default:
		res = Tuple{r.vals}
	}
	bindResults(env0, fr.fn.Signature, res)
	fr.specEnvExtra = extra
	defer func() { fr.specEnvExtra = map[string]Value{} }()
	// unfolds are also available in the final state
	st = st.clone()
	ex.applyUnfolds(fr, st, ct)
	for _, u := range ct.Uses {
		if g, ok := ex.trySpecBool(fr, st, u); ok {
			ex.assume(st, g)
		}
	}
	for _, e := range ct.Ensures {
		if ct.Opts["assumeensures"] != "" {
			// the postconditions are ASSUMED for callers (listed as such); the body is still checked for its loop
			// clauses, guards and safety
			break
		}
		if e.Behav != "" {
			// behaviours: assumes-clauses are handled as antecedents by the writer; label carries the name
		}
		g := ex.specBool(fr, st, e)
		name := fmt.Sprintf("%s#%s@ret%d", key, e.Label, ord)
		if ct.Opts["perreturn"] != "" {
			// each return site is its own obligation class (sites are claimed individually)
			name = fmt.Sprintf("%s#%s.site%d", key, e.Label, ord)
		}
		if e.Behav != "" {
			name = fmt.Sprintf("%s#%s.%s@ret%d", key, e.Behav, e.Label, ord)
			// the behaviour's assumptions are about the entry state
			var as []string
			for _, a := range ct.BehavAssumes[e.Behav] {
				as = append(as, ex.specBool(fr, fr.entry, a))
			}
			g = sImp(sAnd(as...), g)
		}
		o := ex.obligeNamed(st, name, "ensures", g, "postcondition: "+e.Text, r.pos)
		for i, rv := range r.vals {
			if t, ok := rv.(Term); ok {
				o.Outputs = append(o.Outputs, ModelVar{Name: fmt.Sprintf("ret%d", i), Term: t.S, Type: t.T})
			} else {
				o.Outputs = append(o.Outputs, ModelVar{Name: fmt.Sprintf("ret%d", i)})
			}
		}
	}
	// emits
	for i, e := range ct.Emits {
		// counts are those of the entry state: evaluate the clause there
		envPre := ex.envFor(fr, fr.entry)
		envPre.old = nil
		decl, bv, cnt, et := ex.emitCount(envPre, e)
		cur := ex.emittedGet(st, et)
		init := ex.emittedGet(fr.entry, et)
		goal := fmt.Sprintf("(forall (%s) (= (select %s %s) (+ (select %s %s) %s)))", decl, cur, bv, init, bv, cnt)
		if errv, hasErr := extra["err"]; hasErr {
			goal = sImp(sEq(errv.(Term).S, "Dyn_nil"), goal)
		}
		ex.obligeNamed(st, fmt.Sprintf("%s#emits%d@ret%d", key, i+1, ord), "emits", goal, "on success the callback was called exactly: "+e.Text, r.pos)
	}
	// frame
	if ct.HasMod && ct.Opts["assumeframe"] == "" {
		ex.checkFrame(fr, st, ct, ord, r.pos)
	}
}

// checkFrame: every heap component is unchanged except where modifies allows.
func (ex *Exec) checkFrame(fr *Frame, st *State, ct *Contract, ord int, pos token.Pos) {
	key := funcKey(fr.fn)
	if ct.ModAll {
		// only the excepted components are framed
		for _, e := range ct.ModExcept {
			comp := ct.PkgPath + "." + e
			ex.ensureComp(st, comp)
			init := ex.initialComp(comp)
			cur := ex.compTerm(st, comp)
			if cur == init {
				continue
			}
			ex.obligeNamed(st, fmt.Sprintf("%s#frame(%s)@ret%d", key, comp, ord), "frame", sEq(cur, init), "frame: "+comp+" is not modified", pos)
		}
		return
	}
	allowedWhole := map[string]bool{}
	allowedAt := map[string][]string{} // comp -> refs
	allowedIn := map[string][]string{} // comp -> sets
	pre := ex.envFor(fr, fr.entry)
	pre.old = nil
	for _, m := range ct.Modifies {
		if id, ok := m.Expr.(EIdent); ok && id.Name == "everything" {
			return
		}
		if comp, _, ok := ex.modTargetComp(ct, m); ok {
			allowedWhole[comp] = true
			continue
		}
		if b, ok := m.Expr.(EBin); ok && b.Op == "in" {
			comp, _, ok := ex.modTargetComp(ct, &Clause{Expr: b.L})
			if !ok {
				sfail("modifies: cannot resolve %s", m.Text)
			}
			set := pre.evalTerm(b.R, nil)
			allowedIn[comp] = append(allowedIn[comp], set.S)
			continue
		}
		if comp, idx, _, ok := ex.ghostTarget(pre, m.Expr); ok {
			allowedAt[comp] = append(allowedAt[comp], idx)
			continue
		}
		if mt, ok := ex.tryMapTarget(pre, m); ok {
			mc := ex.mapCompsOf(mt.T)
			for _, c := range []string{mc.has, mc.val, mc.ln} {
				allowedAt[c] = append(allowedAt[c], mt.S)
			}
			continue
		}
		sel, ok := m.Expr.(ESel)
		if !ok {
			sfail("modifies: unsupported target %s", m.Text)
		}
		base := pre.evalTerm(sel.X, nil)
		p, ok := base.T.Underlying().(*types.Pointer)
		if !ok {
			sfail("modifies: %s is not a field of a referenced object", m.Text)
		}
		s := p.Elem().Underlying().(*types.Struct)
		found := false
		for i := 0; i < s.NumFields(); i++ {
			if s.Field(i).Name() == sel.Name {
				comp, _ := ex.heapCompName(p.Elem(), i)
				allowedAt[comp] = append(allowedAt[comp], base.S)
				found = true
			}
		}
		if !found {
			sfail("modifies: no field %s", sel.Name)
		}
	}
	if st.epoch != "" {
		// something on this path may have written ANY component (a callee without a frame): a frame claim cannot be
		// established for components this function never names
		ex.obligeNamed(st, fmt.Sprintf("%s#frame(*)@ret%d", key, ord), "frame", "false", "frame: a call or loop on this path may write the whole heap; nothing outside the modifies clause can be shown unchanged", pos)
	}
	var comps []string
	for k := range st.heap {
		comps = append(comps, k)
	}
	for k := range st.ghost {
		if strings.HasPrefix(k, "$g:") {
			comps = append(comps, k)
		}
	}
	sort.Strings(comps)
	oldAlloc := ex.allocSet(fr.entry)
	for _, k := range comps {
		if allowedWhole[k] {
			continue
		}
		hc := ex.vc.heapT[k]
		init := ex.initialComp(k)
		cur, isHeap := st.heap[k]
		if !isHeap {
			cur = st.ghost[k]
		}
		if cur == init {
			continue
		}
		var goal string
		if hc.isArr && hc.idx != "" {
			var exc []string
			for _, r := range allowedAt[k] {
				exc = append(exc, sEq("qr!", r))
			}
			goal = fmt.Sprintf("(forall ((qr! %s)) (=> (not %s) (= (select %s qr!) (select %s qr!))))", hc.idx, sOr(exc...), cur, init)
		} else if hc.isArr {
			var exc []string
			for _, r := range allowedAt[k] {
				exc = append(exc, sEq("qr!", r))
			}
			for _, s := range allowedIn[k] {
				exc = append(exc, sx("select", s, "qr!"))
			}
			// objects allocated during the call are not part of the frame
			exc = append(exc, sNot(sx("select", oldAlloc, "qr!")))
			goal = fmt.Sprintf("(forall ((qr! Int)) (=> (not %s) (= (select %s qr!) (select %s qr!))))", sOr(exc...), cur, init)
		} else {
			goal = sEq(cur, init)
		}
		ex.obligeNamed(st, fmt.Sprintf("%s#frame(%s)@ret%d", key, k, ord), "frame", goal, "frame: "+k+" unchanged outside modifies", pos)
	}
}

// verifyLemma: the statement holds for arbitrary parameters (with optional induction hypotheses).
func (p *Program) verifyLemma(lm *Lemma) (res *FuncResult) {
	key := lm.PkgPath + "." + lm.Name
	vc := newVC(p, lm.Mode)
	res = &FuncResult{Key: key, VC: vc, Lemma: true}
	ex := &Exec{vc: vc, prog: p, provingLemma: lm}
	defer func() {
		if r := recover(); r != nil {
			switch e := r.(type) {
			case unsupportedErr:
				res.Err = e
			case specErr:
				res.Err = e
			default:
				panic(r)
			}
		}
		res.Obls = vc.obls
		res.Notes = vc.notes
	}()
	st := &State{pc: "true", cells: map[*ssa.Alloc]Value{}, heap: map[string]string{}, ghost: map[string]string{}}
	env := &SpecEnv{ex: ex, st: st, vars: map[string]Value{}, pkg: p.typesPkgByRel(lm.PkgPath)}
	dummyFn := &Frame{oblCount: map[string]int{}, params: map[string]Value{}}
	ex.top = dummyFn
	for _, prm := range lm.Params {
		t := env.resolveType(prm.Type)
		var v Term
		if _, isPtr := t.Underlying().(*types.Pointer); isPtr {
			v = Term{S: vc.fresh("l_"+prm.Name, "Int"), T: t}
			ex.assume(st, sx("<=", "0", v.S))
		} else if _, isSet := t.(*SetType); isSet {
			v = Term{S: vc.fresh("l_"+prm.Name, vc.tc.sortOf(t)), T: t}
		} else {
			v = ex.havocValue(st, "l_"+prm.Name, t)
		}
		env.vars[prm.Name] = v
		dummyFn.params[prm.Name] = v
	}
	// induction hypotheses: the lemma for structurally smaller arguments
	for _, ind := range lm.Induct {
		// "induct name(args...)": the lemma itself at other arguments, usable only where the declared
		// measure is non-negative and strictly smaller (well-founded induction).
		call, ok := ind.(ECall)
		if !ok || lm.Decr == nil || len(call.Args) != len(lm.Params) {
			sfail("lemma %s: 'induct' needs a self-application and a 'decreases' measure", lm.Name)
		}
		n := env.sub()
		for i, p := range lm.Params {
			n.vars[p.Name] = env.evalTerm(call.Args[i], env.resolveType(p.Type))
		}
		m0 := env.evalTerm(lm.Decr, nil)
		m1 := n.evalTerm(lm.Decr, nil)
		guard := sAnd(sx("<=", "0", m1.S), sx("<", m1.S, m0.S))
		ex.assume(st, sImp(guard, n.evalTerm(lm.Body, types.Typ[types.Bool]).S))
	}
	for _, u := range lm.Unfold {
		ex.assume(st, env.unfoldSpec(u))
	}
	for _, u := range lm.UnfoldAt {
		ex.unfoldAllAt(env, lm.PkgPath, env.evalTerm(u, nil))
	}
	for _, u := range lm.Uses {
		ex.assume(st, env.evalTerm(u, types.Typ[types.Bool]).S)
	}
	g := env.evalTerm(lm.Body, types.Typ[types.Bool]).S
	o := &Obligation{Name: key + "#lemma", Kind: "lemma", PC: st.pc, Goal: g, Text: "lemma " + lm.Name, Fn: key}
	o.Inputs = dummyFn.modelVars()
	vc.oblige(o)
	return res
}

func (dummy *Frame) String() string { return "" }

// findFunction locates the SSA function for a contract key.
func (p *Program) findFunction(ct *Contract) *ssa.Function {
	pk := p.pkgs[ct.PkgPath]
	if pk == nil {
		return nil
	}
	if strings.Contains(ct.Name, "$") {
		// a function literal, named as go/ssa names it, with the receiver of the enclosing method if it has one:
		// func match$1(key, val)  /  func (a *TemporalFactStoreAdapter) GetFacts$1(tf)
		var found *ssa.Function
		for g := range ssautil.AllFunctions(p.ssaProg) {
			if g.Parent() != nil && fnPkg(g) == pk.Pkg && len(g.Blocks) > 0 && funcKey(g) == ct.Key() {
				if found == nil || g.Pos() < found.Pos() {
					found = g
				}
			}
		}
		return found
	}
	if ct.Recv == "" {
		f := pk.Func(ct.Name)
		if f != nil && f.TypeParams().Len() > 0 {
			// generic: verify its (first) instantiation; every instantiation found is reported
			var insts []*ssa.Function
			for g := range ssautil.AllFunctions(p.ssaProg) {
				if g.Origin() == f && len(g.Blocks) > 0 {
					insts = append(insts, g)
				}
			}
			sort.Slice(insts, func(i, j int) bool { return insts[i].Name() < insts[j].Name() })
			if len(insts) == 0 {
				return nil
			}
			return insts[0]
		}
		return f
	}
	tn, ok := pk.Pkg.Scope().Lookup(ct.Recv).(*types.TypeName)
	if !ok {
		return nil
	}
	for _, t := range []types.Type{tn.Type(), types.NewPointer(tn.Type())} {
		ms := p.ssaProg.MethodSets.MethodSet(t)
		for i := 0; i < ms.Len(); i++ {
			if ms.At(i).Obj().Name() == ct.Name {
				if f := p.ssaProg.MethodValue(ms.At(i)); f != nil && f.Synthetic == "" {
					return f
				}
			}
		}
	}
	// synthetic wrappers only: take declared method
	for _, t := range []types.Type{tn.Type(), types.NewPointer(tn.Type())} {
		if obj, _, _ := types.LookupFieldOrMethod(t, true, pk.Pkg, ct.Name); obj != nil {
			if f, ok := obj.(*types.Func); ok {
				return p.ssaProg.FuncValue(f)
			}
		}
	}
	return nil
}

func describeObligation(o *Obligation) string {
	pos := ""
	if o.Pos.IsValid() {
		pos = fmt.Sprintf(" (%s:%d)", strings.TrimPrefix(o.Pos.Filename, "/repo/"), o.Pos.Line)
	}
	return o.Name + ": " + o.Text + pos
}

func (p *Program) noCallObligation(vc *VC, fn *ssa.Function, key string, g *Guard) {
	site, verb := noCallSite(fn, g.Name), "call"
	if g.Kind == "noread" {
		// "guard noread G: false": neither the function nor its literals mention the package-level variable G
		site, verb = noGlobalSite(fn, g.Name), "mention the package-level variable"
	}
	goal, txt := "true", "the function does not "+verb+" "+g.Name
	if site != "" {
		goal, txt = "false", "the function must not "+verb+" "+g.Name+", but does ("+site+")"
	}
	vc.oblige(&Obligation{Name: fmt.Sprintf("%s#guard(%s %s)", key, g.Kind, g.Name), Kind: "static", PC: "true", Goal: goal, Text: txt, Fn: key})
}

func noGlobalSite(fn *ssa.Function, name string) string {
	for _, b := range fn.Blocks {
		for _, in := range b.Instrs {
			for _, op := range in.Operands(nil) {
				if gl, ok := (*op).(*ssa.Global); ok && gl.Name() == name {
					return fn.Prog.Fset.Position(in.Pos()).String()
				}
			}
		}
	}
	for _, af := range fn.AnonFuncs {
		if s := noGlobalSite(af, name); s != "" {
			return s
		}
	}
	return ""
}

// noCallSite: a description of the first call of a function or method called name inside fn or one of its function
// literals ("" if there is none).
func noCallSite(fn *ssa.Function, name string) string {
	for _, b := range fn.Blocks {
		for _, in := range b.Instrs {
			ci, ok := in.(ssa.CallInstruction)
			if !ok {
				continue
			}
			c := ci.Common()
			n := ""
			if c.IsInvoke() {
				n = c.Method.Name()
			} else if sc := c.StaticCallee(); sc != nil {
				n = sc.Name()
			}
			if n == name {
				return fn.Prog.Fset.Position(in.Pos()).String()
			}
		}
	}
	for _, af := range fn.AnonFuncs {
		if s := noCallSite(af, name); s != "" {
			return s
		}
	}
	return ""
}
