#!/bin/bash
# Applies each harmless refactoring under seeded/_refactors/<name>/patch.diff to /repo, runs the quick
# check of every property that has a unit in a touched package, and undoes it. Any VIOLATION is a false alarm.
# usage: run_refactors.sh [name-prefix]
cd /verif
for d in seeded/_refactors/${1:-}*/; do
  n=$(basename $d)
  [ -f $d/patch.diff ] || continue
  if ! git -C /repo diff --quiet; then echo "/repo is dirty; abort"; exit 2; fi
  props=$(python3 - "$d/patch.diff" <<'PY'
import json,re,sys
pk=set()
for l in open(sys.argv[1]):
    m=re.match(r'\+\+\+ b/(.*)/[^/]+\.go',l)
    if m: pk.add(m.group(1).split('/')[-1])
P=json.load(open('/verif/props.json'))
out=[]
for k,v in sorted(P.items()):
    us=[u if isinstance(u,str) else u.get('name','') for u in v.get('units',[])]
    if any(u.replace('lemma:','').split('.')[0] in pk for u in us): out.append(k)
print(' '.join(out))
PY
)
  git -C /repo apply /verif/${d}patch.diff || { echo "$n: patch does not apply"; continue; }
  res=""
  for prop in $props; do
    out=$(GOCV_EVIDENCE_DIR=/tmp/gocv_seed_evidence ./check $prop quick 2>&1); rc=$?
    v=$(echo "$out" | grep -c '^VIOLATION')
    res="$res $prop:exit=$rc,v=$v"
    [ $v -gt 0 ] && echo "$out" | grep '^VIOLATION' | sed "s/^/  $n: /"
  done
  git -C /repo checkout -- .
  echo "$n:$res"
done
