#!/bin/bash
# Applies each kept seeded change to /repo, runs the quick check of its property, and undoes it.
# usage: run_seeds.sh [name-prefix]
cd /verif
for d in seeded/${1:-}*/; do
  n=$(basename $d)
  [ -f $d/patch.diff ] || continue
  prop=$(python3 -c "import json;print(json.load(open('$d/meta.json'))['property'])")
  if ! git -C /repo diff --quiet; then echo "/repo is dirty; abort"; exit 2; fi
  if ! python3 -c "import json,sys;sys.exit(0 if '$prop' in json.load(open('/verif/props.json')) else 1)"; then echo "$n: property $prop has no check"; continue; fi
  git -C /repo apply /verif/${d}patch.diff || { echo "$n: patch does not apply"; continue; }
  out=$(GOCV_EVIDENCE_DIR=/tmp/gocv_seed_evidence ./check $prop quick 2>&1); rc=$?
  git -C /repo checkout -- .
  v=$(echo "$out" | grep -c '^VIOLATION')
  echo "$n: property=$prop exit=$rc violations=$v $(echo "$out" | grep '^VIOLATION' | sed 's/.*replay=\/verif\/replays\///' | tr '\n' ' ')"
done
