#!/bin/bash
# usage: seed_confirm.sh <seed-out-id> <dest-name>
# Confirms a seeded change in its scratch worktree: (1) with the change the existing suite passes,
# (2) the demo fails with the change, (3) the demo passes without it. Then stores it under /verif/seeded/<dest-name>.
set -u
ID=$1; NAME=$2
export GOFLAGS=-mod=mod GOPROXY=off
WT=/tmp/wt_$ID; OUT=/tmp/seed_out/$ID
cd $WT || exit 2
git checkout -q -- . ; git clean -fdq
DEMO=$(cat $OUT/demo_path.txt | tr -d '\n ')
PKG=./$(dirname $DEMO)
git apply $OUT/patch.diff || { echo "patch does not apply"; exit 1; }
go build ./... || { echo "BUILD FAILS"; exit 1; }
if go test -vet=off -count=1 ./... > /tmp/seedtest_$ID.log 2>&1; then S1="suite passes with change"; else echo "SUITE FAILS with change"; tail -20 /tmp/seedtest_$ID.log; exit 1; fi
cp $OUT/$(basename $DEMO) $WT/$DEMO
if go test -vet=off -count=1 -run 'Seeded|seeded|Demo' $PKG > /tmp/seeddemo_$ID.log 2>&1; then echo "DEMO PASSES with change (bad)"; exit 1; else S2="demo fails with change"; fi
git apply -R $OUT/patch.diff
if go test -vet=off -count=1 -run 'Seeded|seeded|Demo' $PKG > /tmp/seeddemo2_$ID.log 2>&1; then S3="demo passes without change"; else echo "DEMO FAILS without change (bad)"; tail -20 /tmp/seeddemo2_$ID.log; exit 1; fi
rm -f $WT/$DEMO
mkdir -p /verif/seeded/$NAME
cp $OUT/patch.diff /verif/seeded/$NAME/patch.diff
cp $OUT/$(basename $DEMO) /verif/seeded/$NAME/$(basename $DEMO).txt
python3 - "$OUT/meta.json" "/verif/seeded/$NAME/meta.json" "$DEMO" "$S1; $S2; $S3" <<'PY'
import json,sys
m=json.load(open(sys.argv[1]))
m['demo_path']=sys.argv[3]
m['demo_file']=sys.argv[3].split('/')[-1]+'.txt'
m['confirmed']=sys.argv[4]
m['confirm_cmds']=["git apply patch.diff; go build ./...; go test -vet=off -count=1 ./...","go test -vet=off -count=1 -run 'Seeded|seeded|Demo' <pkg> (with change: fails; without: passes)"]
json.dump(m,open(sys.argv[2],'w'),indent=1)
PY
echo "OK $NAME: $S1; $S2; $S3"
